"""Harness-side BGP wire helpers: an independent (RFC 4271 / 5492 / 6793) encoder for the messages the
simulated peer sends and a reader for what the agent wrote.  Shares no code with yabgp.

The TLA+ Layer W (spec/Wire*.tla) is the reference for the codec properties; this module only has to
frame peer stimuli and classify agent output for the session-level properties.
"""
import struct

MARKER = b'\xff' * 16
OPEN, UPDATE, NOTIFICATION, KEEPALIVE, ROUTEREFRESH, CISCO_RR = 1, 2, 3, 4, 5, 128
TYPE_NAME = {1: 'OPEN', 2: 'UPDATE', 3: 'NOTIFICATION', 4: 'KEEPALIVE', 5: 'RR', 128: 'RR'}
AS_TRANS = 23456


def frame(typ, body=b'', length=None, marker=MARKER):
    return marker + struct.pack('!HB', 19 + len(body) if length is None else length, typ) + body


# ---------------------------------------------------------------- capabilities (RFC 5492)
def cap(code, value=b''):
    return struct.pack('!BB', code, len(value)) + value


def cap_mp(afi, safi):
    return cap(1, struct.pack('!HBB', afi, 0, safi))


def cap_as4(asn):
    return cap(65, struct.pack('!I', asn))


CAP_BYTES = {
    'mp': lambda asn: cap_mp(1, 1),
    'mp6': lambda asn: cap_mp(2, 1),
    'rr': lambda asn: cap(2),
    'crr': lambda asn: cap(128),
    'err': lambda asn: cap(70),
    'gr': lambda asn: cap(64, b'\x00\x78'),
    'as4': lambda asn: cap_as4(asn),
    'unk': lambda asn: cap(99, b'\x01\x02'),
    # add-path with Send/Receive values that have no name (0, 4, 255) for IPv4 unicast itself, next to a named one for IPv6
    'ap0': lambda asn: cap(69, b'\x00\x01\x01\x00'),
    'ap4': lambda asn: cap(69, b'\x00\x01\x01\x04' + b'\x00\x02\x01\x03'),
    'ap255': lambda asn: cap(69, b'\x00\x02\x01\x01' + b'\x00\x01\x01\xff'),
    'ap3': lambda asn: cap(69, b'\x00\x01\x01\x03'),
    'grf': lambda asn: cap(64, b'\x80\x78\x00\x01\x01\x80'),          # graceful restart: restart flag, one family with the forwarding bit
    'llgr': lambda asn: cap(71, b'\x00\x01\x01\x80\x00\x00\x78'),
    'xnh': lambda asn: cap(5, b'\x00\x01\x00\x01\x00\x02'),
    'apx': lambda asn: cap(69, b'\x00\x01\x01\x03' + b'\x00\x63\x63\x01' + b'\x00\x02\x01\x00'),   # add-path: ipv4 both, unknown family, unknown action
}


def open_msg(asn, hold, bgp_id=0x0a000002, caps=('mp', 'rr', 'as4'), version=4, one_param_each=True):
    """OPEN as a real router would send it: 2-octet field carries AS_TRANS when asn > 65535."""
    my_as = asn if asn <= 65535 else AS_TRANS
    params = b''
    if one_param_each:
        for c in caps:
            v = CAP_BYTES[c](asn)
            params += struct.pack('!BB', 2, len(v)) + v
    elif caps:
        v = b''.join(CAP_BYTES[c](asn) for c in caps)
        params = struct.pack('!BB', 2, len(v)) + v
    body = struct.pack('!BHHIB', version, my_as, hold, bgp_id, len(params)) + params
    return frame(OPEN, body)


def open_msg2(as2, as4, hold, bgp_id=0x0a000002, caps=('mp', 'rr'), version=4, one_param_each=True):
    """OPEN with the 2-octet My-AS field and the 4-octet-AS capability value chosen independently (as4 None: no capability 65)."""
    cl = [cap_as4(as4) if c == 'as4' else CAP_BYTES[c](0) for c in caps if c != 'as4' or as4 is not None]
    if as4 is not None and 'as4' not in caps:
        cl.append(cap_as4(as4))
    params = b''
    if one_param_each:
        for v in cl:
            params += struct.pack('!BB', 2, len(v)) + v
    elif cl:
        v = b''.join(cl)
        params = struct.pack('!BB', 2, len(v)) + v
    return frame(OPEN, struct.pack('!BHHIB', version, as2, hold, bgp_id, len(params)) + params)


def keepalive():
    return frame(KEEPALIVE)


def notification(code, sub, data=b''):
    return frame(NOTIFICATION, struct.pack('!BB', code, sub) + data)


def route_refresh(afi=1, safi=1, typ=ROUTEREFRESH, res=0):
    return frame(typ, struct.pack('!HBB', afi, res, safi))


def prefix4(plen, addr):
    n = (plen + 7) // 8
    return bytes([plen]) + addr[:n]


def attr(flags, typ, value):
    if len(value) > 255:
        return struct.pack('!BBH', flags | 0x10, typ, len(value)) + value
    return struct.pack('!BBB', flags, typ, len(value)) + value


def update(withdrawn=b'', attrs=b'', nlri=b''):
    return frame(UPDATE, struct.pack('!H', len(withdrawn)) + withdrawn + struct.pack('!H', len(attrs)) + attrs + nlri)


def as_path(asns, asn4):
    if not asns:
        return b''
    fmt = '!%dI' % len(asns) if asn4 else '!%dH' % len(asns)
    return struct.pack('!BB', 2, len(asns)) + struct.pack(fmt, *asns)


def simple_update(prefixes=((24, b'\x0a\x01\x01'),), asns=(65002,), asn4=True, nexthop=b'\x0a\x00\x00\x02', med=None):
    a = attr(0x40, 1, b'\x00') + attr(0x40, 2, as_path(asns, asn4)) + attr(0x40, 3, nexthop)
    if med is not None:
        a += attr(0x80, 4, struct.pack('!I', med))
    return update(attrs=a, nlri=b''.join(prefix4(l, p) for l, p in prefixes))


# ---------------------------------------------------------------- reading what the agent wrote
def split_frames(data):
    """-> (list of (type, body, raw), leftover).  Agent output is trusted to be framed; a framing
    problem is reported as type -1 so the caller can flag it."""
    out = []
    while len(data) >= 19:
        if data[:16] != MARKER:
            out.append((-1, data, data))
            return out, b''
        length, typ = struct.unpack('!HB', data[16:19])
        if length < 19 or len(data) < length:
            out.append((-1, data, data))
            return out, b''
        out.append((typ, data[19:length], data[:length]))
        data = data[length:]
    if data:
        out.append((-1, data, data))
    return out, b''


CAP_NAME = {1: 'mp', 2: 'rr', 128: 'crr', 70: 'err', 64: 'gr', 65: 'as4', 69: 'addpath', 5: 'enh', 71: 'llgr', 131: 'cms'}


def read_open(body):
    """-> dict(version, my_as, hold, bgp_id, caps=[(code, value-bytes)], as4=asn or None, ok=bool)"""
    if len(body) < 10:
        return {'ok': False}
    ver, my_as, hold, bgp_id, plen = struct.unpack('!BHHIB', body[:10])
    rest = body[10:]
    ok = plen == len(rest)
    caps = []
    while len(rest) >= 2:
        pt, pl = rest[0], rest[1]
        pv = rest[2:2 + pl]
        if len(pv) != pl:
            ok = False
        rest = rest[2 + pl:]
        if pt != 2:
            ok = False
            continue
        while len(pv) >= 2:
            cc, cl = pv[0], pv[1]
            cv = pv[2:2 + cl]
            if len(cv) != cl:
                ok = False
            caps.append((cc, cv))
            pv = pv[2 + cl:]
        if pv:
            ok = False
    if rest:
        ok = False
    as4 = None
    for cc, cv in caps:
        if cc == 65 and len(cv) == 4:
            as4 = struct.unpack('!I', cv)[0]
    return {'ok': ok, 'version': ver, 'my_as': my_as, 'hold': hold, 'bgp_id': bgp_id, 'caps': caps, 'as4': as4}


def describe(typ, body):
    """Small JSON-able description of one agent-written message (all ints < 2^31)."""
    d = {'type': TYPE_NAME.get(typ, 'T%d' % typ), 'code': 0, 'sub': 0, 'len': 19 + len(body)}
    if typ == NOTIFICATION and len(body) >= 2:
        d['code'], d['sub'] = body[0], body[1]
    elif typ == OPEN:
        o = read_open(body)
        if o.get('ok'):
            true_as = o['as4'] if o['as4'] is not None else o['my_as']
            d.update(ver=o['version'], my_as=o['my_as'], hold=o['hold'],
                     as_hi=true_as >> 16, as_lo=true_as & 0xffff,
                     id_hi=o['bgp_id'] >> 16, id_lo=o['bgp_id'] & 0xffff,
                     caps=sorted(set(c for c, _ in o['caps'])), has_as4=o['as4'] is not None, wf=True)
        else:
            d.update(wf=False)
    elif typ == UPDATE:
        d.update(update_summary(body))
    elif typ == ROUTEREFRESH or typ == CISCO_RR:
        if len(body) == 4:
            d.update(afi=body[0] * 256 + body[1], safi=body[3], res=body[2])
    elif typ == -1:
        d['type'] = 'GARBAGE'
    return d


def update_summary(body):
    """counts and attribute type codes of an UPDATE the agent wrote (harness-side reader, RFC 4271 4.3)"""
    out = {'wdn': -1, 'nln': -1, 'ats': [], 'lp': -1, 'aspl': -1}
    try:
        wl = struct.unpack('!H', body[:2])[0]
        wd = body[2:2 + wl]
        al = struct.unpack('!H', body[2 + wl:4 + wl])[0]
        at = body[4 + wl:4 + wl + al]
        nl = body[4 + wl + al:]

        def count(b):
            n = 0
            while b:
                b = b[1 + (b[0] + 7) // 8:]
                n += 1
            return n
        out['wdn'], out['nln'] = count(wd), count(nl)
        while at:
            fl, t = at[0], at[1]
            if fl & 0x10:
                ln = struct.unpack('!H', at[2:4])[0]
                v = at[4:4 + ln]
                at = at[4 + ln:]
            else:
                ln = at[2]
                v = at[3:3 + ln]
                at = at[3 + ln:]
            out['ats'].append(t)
            if t == 2:
                out['aspl'] = len(v)          # octets of the AS_PATH value (shows the width the AS numbers were written with)
            if t == 5 and len(v) == 4:
                lp = struct.unpack('!I', v)[0]
                out['lp'] = lp if lp < 2 ** 31 else 2 ** 31 - 1
    except Exception:
        out['wdn'] = -2
    return out
