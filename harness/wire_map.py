"""Abstract wire values (as printed by TLC from spec/Wire*.tla) -> the dict yabgp's Update.construct takes and the
dict its documented Update.parse output form gives for the same value.  This mapping is the only Python in the
oracle path of the codec properties (DESIGN.md 5 C06); everything about octets is decided in TLA+."""


def u32(hl):
    return hl[0] * 65536 + hl[1]


def ip4(a):
    return '%d.%d.%d.%d' % tuple(a)


def prefix4(p):
    return '%s/%d' % (ip4(p['a']), p['l'])


def community_text(hl, names):
    v = u32(hl)
    if v in names:
        return names[v]
    return '%d:%d' % (hl[0], hl[1])


def ext_text_and_input(o):
    """8 octets -> (decoder text, construct input [code, value]) for the kinds used in the UPDATE pools; the complete
    table lives with C17 (harness/comm_map.py)."""
    t = o[0] * 256 + o[1]
    if t == 0x0002:
        v = '%d:%d' % (o[2] * 256 + o[3], (o[4] << 24) + (o[5] << 16) + (o[6] << 8) + o[7])
        return 'route-target:' + v, [2, v]
    if t == 0x0102:
        v = '%d.%d.%d.%d:%d' % (o[2], o[3], o[4], o[5], o[6] * 256 + o[7])
        return 'route-target:' + v, [258, v]
    if t == 0x0202:
        v = '%d:%d' % ((o[2] << 24) + (o[3] << 16) + (o[4] << 8) + o[5], o[6] * 256 + o[7])
        return 'route-target:' + v, [514, v]
    if t == 0x0003:
        v = '%d:%d' % (o[2] * 256 + o[3], (o[4] << 24) + (o[5] << 16) + (o[6] << 8) + o[7])
        return 'route-origin:' + v, [3, v]
    if t == 0x030b:
        v = (o[4] << 24) + (o[5] << 16) + (o[6] << 8) + o[7]
        return 'color:%d' % v, [779, v]
    if t == 0x030c:
        v = (o[6] << 8) + o[7]
        return 'encapsulation:%d' % v, [780, v]
    if t == 0x0600:
        return None, None
    return None, None


def attr_in_out(a, asn4, names):
    """-> (type code, construct input, expected parse output) ; (t, None, None) when the kind has no construct form"""
    t, v = a[0], a[1]
    if t == 1:
        return t, v, v
    if t in (2, 17):
        segs = [(s['st'], [u32(x) for x in s['asns']]) for s in v]
        return t, segs, segs
    if t in (3, 9):
        return t, ip4(v), ip4(v)
    if t in (4, 5):
        return t, u32(v), u32(v)
    if t == 6:
        return t, b'', ''
    if t in (7, 18):
        x = (u32(v['as']), ip4(v['ip']))
        return t, x, x
    if t == 8:
        txt = [community_text(c, names) for c in v]
        return t, txt, txt
    if t == 10:
        x = [ip4(i) for i in v]
        return t, x, x
    if t == 16:
        outs, ins = [], []
        for o in v:
            txt, inp = ext_text_and_input(o)
            outs.append(txt)
            ins.append(inp)
        if any(x is None for x in outs):
            return t, None, None
        return t, ins, outs
    if t == 32:
        x = ['%d:%d:%d' % (u32(c[0]), u32(c[1]), u32(c[2])) for c in v]
        return t, x, x
    # unknown attribute: decode-only, rendered as hex text
    return t, None, ''.join('%02x' % b for b in v)


def update_in_out(u, asn4, names, pathids=False):
    """-> (construct input dict or None, expected parse fields)"""
    ain, aout, constructible = {}, {}, True
    for a in u['attrs']:
        t, i, o = attr_in_out(a, asn4, names)
        if i is None:
            constructible = False
        else:
            ain[t] = i
        aout[t] = o
    nl = [prefix4(p) for p in u['nlri']]
    wd = [prefix4(p) for p in u['wd']]
    exp = {'attr': aout, 'nlri': nl, 'withdraw': wd}
    if pathids:
        exp['nlri'] = [{'prefix': p, 'path_id': i + 1} for i, p in enumerate(nl)]
        exp['withdraw'] = [{'prefix': p, 'path_id': i + 1} for i, p in enumerate(wd)]
    inp = {'attr': ain, 'nlri': nl, 'withdraw': wd} if constructible else None
    return inp, exp


def norm(x):
    """tuples/lists are the same thing in parse output"""
    if isinstance(x, (list, tuple)):
        return [norm(i) for i in x]
    if isinstance(x, dict):
        return {str(k): norm(v) for k, v in x.items()}
    return x


# ----------------------------------------------------------------------------- OPEN / NOTIFICATION / ROUTE-REFRESH (C14)
def open_expected(o, afi_safi_names, addpath_names):
    """documented output form of Open().parse for the abstract OPEN value o"""
    caps = {}
    asn = u32(o['as'])
    for code, val in o['caps']:
        val = bytes(val)
        if code == 1:
            caps.setdefault('afi_safi', []).append([val[0] * 256 + val[1], val[3]])
        elif code == 2:
            caps['route_refresh'] = True
        elif code == 128:
            caps['cisco_route_refresh'] = True
        elif code == 64:
            caps['graceful_restart'] = True
        elif code == 131:
            caps['cisco_multi_session'] = True
        elif code == 70:
            caps['enhanced_route_refresh'] = True
        elif code == 65:
            caps['four_bytes_as'] = True
        elif code == 69:
            lst = caps.setdefault('add_path', [])
            for k in range(0, len(val), 4):
                lst.append({'afi_safi': afi_safi_names[(val[k] * 256 + val[k + 1], val[k + 2])], 'send/receive': addpath_names[val[k + 3]]})
        elif code == 71:
            lst = caps.setdefault('LLGR', [])
            for k in range(0, len(val), 7):
                lst.append({'afi_safi': [val[k] * 256 + val[k + 1], val[k + 2]], 'time': (val[k + 4] << 16) + (val[k + 5] << 8) + val[k + 6]})
        elif code == 5:
            lst = caps.setdefault('ext_nexthop', [])
            for k in range(0, len(val), 6):
                lst.append({'afi_safi': [val[k] * 256 + val[k + 1], val[k + 2] * 256 + val[k + 3]], 'nexthop_afi': val[k + 4] * 256 + val[k + 5]})
        else:
            caps[str(code)] = repr(val)
    return {'version': o['ver'], 'asn': asn, 'hold_time': o['hold'], 'bgp_id': ip4(o['id']), 'capabilities': caps}


def open_construct_input(o):
    """-> (asn, hold, bgp_id int, my_capability dict) for Open(...).construct"""
    cap = {}
    for code, val in o['caps']:
        val = bytes(val)
        if code == 1:
            cap.setdefault('afi_safi', []).append((val[0] * 256 + val[1], val[3]))
        elif code == 2:
            cap['route_refresh'] = True
        elif code == 128:
            cap['cisco_route_refresh'] = True
        elif code == 70:
            cap['enhanced_route_refresh'] = True
        elif code == 65:
            cap['four_bytes_as'] = True
        elif code == 69:
            cap['add_path'] = {1: 'ipv4_receive', 2: 'ipv4_send', 3: 'ipv4_both'}[val[3]]
        elif code == 5:
            cap['ext_nexthop'] = [{'afi_safi': [val[k] * 256 + val[k + 1], val[k + 2] * 256 + val[k + 3]], 'nexthop_afi': val[k + 4] * 256 + val[k + 5]}
                                  for k in range(0, len(val), 6)]
    i = o['id']
    return u32(o['as']), o['hold'], (i[0] << 24) + (i[1] << 16) + (i[2] << 8) + i[3], cap


# ----------------------------------------------------------------------------- multiprotocol families (C07)
import ipaddress as _ipa


def ip_any(o):
    o = bytes(o)
    return str(_ipa.ip_address(o)) if len(o) in (4, 16) else ''


def prefix_any(p):
    a = bytes(p['a'])
    return '%s/%d' % (_ipa.ip_address(a), p['l'])


def rd_text(rd):
    t, o = rd[0], rd[1]
    if t == 0:
        return '%d:%d' % (o[0] * 256 + o[1], (o[2] << 24) + (o[3] << 16) + (o[4] << 8) + o[5])
    if t == 1:
        return '%d.%d.%d.%d:%d' % (o[0], o[1], o[2], o[3], o[4] * 256 + o[5])
    return '%d:%d' % ((o[0] << 24) + (o[1] << 16) + (o[2] << 8) + o[3], o[4] * 256 + o[5])


def mac_text(m):
    return '-'.join('%02X' % x for x in m)


def esi_value(e):
    t = e[0]
    v = bytes(e[1:])
    if t == 0:
        return {'type': 0, 'value': int.from_bytes(v, 'big')}
    if t == 1:
        return {'type': 1, 'value': {'ce_mac_addr': mac_text(v[0:6]), 'ce_port_key': int.from_bytes(v[6:8], 'big')}}
    if t == 2:
        return {'type': 2, 'value': {'rb_mac_addr': mac_text(v[0:6]), 'rb_priority': int.from_bytes(v[6:8], 'big')}}
    if t == 3:
        return {'type': 3, 'value': {'sys_mac_addr': mac_text(v[0:6]), 'ld_value': int.from_bytes(v[6:9], 'big')}}
    if t == 4:
        return {'type': 4, 'value': {'router_id': int.from_bytes(v[0:4], 'big'), 'ld_value': int.from_bytes(v[4:8], 'big')}}
    return {'type': 5, 'value': {'as_num': int.from_bytes(v[0:4], 'big'), 'ld_value': int.from_bytes(v[4:8], 'big')}}


def evpn_route(e):
    t, v = e[0], e[1]
    r = {'rd': rd_text(v['rd'])}
    if 'esi' in v:
        r['esi'] = esi_value(v['esi'])
    if 'tag' in v:
        r['eth_tag_id'] = u32(v['tag'])
    if t == 1:
        r['label'] = [v['label']]
    if t == 2:
        r['mac'] = mac_text(v['mac'])
        r['label'] = list(v['labels'])
    if v.get('ip'):
        r['ip'] = ip_any(v['ip'])
    return {'type': t, 'value': r}


def fs_rule(rule):
    out = {}
    for c in rule:
        t, payload = c[0], c[1]
        if t in (1, 2):
            out[t] = prefix4(payload)
        else:
            out[t] = '|'.join(o['op'] + str(int.from_bytes(bytes(o['v']), 'big')) for o in payload)
    return out


AFISAFI = {'ipv6': (2, 1), 'lu4': (1, 4), 'lu6': (2, 4), 'vpn4': (1, 128), 'vpn6': (2, 128), 'evpn': (25, 70), 'fs': (1, 133)}
WITHDRAW_LABEL = 524288


def mp_in_out(m):
    """-> (attribute type 14 / 15, construct input value, expected parse output value)"""
    fam, reach = m['fam'], m['reach']
    afisafi = AFISAFI[fam]
    routes_in, routes_out = [], []
    for r in m['routes']:
        if fam == 'ipv6':
            x = prefix_any(r)
            routes_in.append(x)
            routes_out.append(x)
        elif fam in ('lu4', 'lu6'):
            x = {'prefix': prefix_any(r['p']), 'label': list(r['labels'])}
            routes_in.append(x)
            routes_out.append(x if reach else {'prefix': x['prefix'], 'label': [WITHDRAW_LABEL]})
        elif fam in ('vpn4', 'vpn6'):
            x = {'label': list(r['labels']), 'rd': rd_text(r['rd']), 'prefix': prefix_any(r['p'])}
            routes_in.append(x)
            routes_out.append(x if reach else dict(x, label=[WITHDRAW_LABEL]))
        elif fam == 'evpn':
            x = evpn_route(r)
            routes_in.append(x)
            routes_out.append(x)
        else:
            x = fs_rule(r)
            routes_in.append(x)
            routes_out.append(x)
    nh = bytes(m['nh'])
    if not reach:
        key = 'withdraw'
        return 15, {'afi_safi': afisafi, key: routes_in}, {'afi_safi': afisafi, key: routes_out}
    if fam == 'ipv6':
        nhv = {'nexthop': ip_any(nh[:16])}
        if len(nh) == 32:
            nhv['linklocal_nexthop'] = ip_any(nh[16:])
    elif fam in ('vpn4', 'vpn6'):
        nhv = {'nexthop': {'rd': '0:0', 'str': ip_any(nh[8:])}}
    elif fam == 'fs':
        nhv = {'nexthop': ip_any(nh)}
    else:
        nhv = {'nexthop': ip_any(nh)}
    vin = dict(afi_safi=afisafi, nlri=routes_in, **nhv)
    vout = dict(afi_safi=afisafi, nlri=routes_out, **nhv)
    return 14, vin, vout


# ----------------------------------------------------------------------------- construct-only families (C08)
def _sid(f):
    return {'label': f[0], 'TC': f[1], 'S': f[2], 'TTL': f[3]}


def sr_segment(sg):
    t = sg[0]
    if t == 1:
        return {'1': _sid(sg[1:5])}
    if t == 3:
        v = {'node': ip4(sg[1:5])}
        if len(sg) > 5:
            v['SID'] = _sid(sg[5:9])
        return {'3': v}
    if t == 5:
        v = {'interface': sg[1] * 65536 + sg[2], 'node': ip4(sg[3:7])}
        if len(sg) > 7:
            v['SID'] = _sid(sg[7:11])
        return {'5': v}
    v = {'local': ip4(sg[1:5]), 'remote': ip4(sg[5:9])}
    if len(sg) > 9:
        v['SID'] = _sid(sg[9:13])
    return {'6': v}


def sr_policy(p):
    """abstract SR policy -> the dictionary TunnelEncaps.construct documents ('0' first: it selects the code points)"""
    new = p['enc'] == 'new'
    d = {'0': p['enc']}
    if p['pref']:
        d['12' if new else '6'] = u32(p['pref'])
    if p['bsid']:
        d['13' if new else '7'] = p['bsid'][0]
    if p['enlp']:
        d['14'] = p['enlp'][0]
    if p['prio']:
        d['15'] = p['prio'][0]
    if p['name']:
        d['129'] = ''.join(chr(c) for c in p['name'])
    if p['rep']:
        asn, af, addr = p['rep']
        d['6'] = {'asn': u32(asn), 'afi': 'ipv4' if af == 1 else 'ipv6', 'address': ip_any(bytes(addr))}
    lists = []
    for sl in p['lists']:
        x = {}
        if sl['w']:
            x['9'] = u32(sl['w'])
        x['1'] = [sr_segment(sg) for sg in sl['segs']]
        lists.append(x)
    d['128'] = lists
    return d


def fs6_rule(rule):
    out = {}
    for c in rule:
        t, payload = c[0], c[1]
        if t in (1, 2):
            l, off, a = payload
            out[t] = {'prefix': '%s/%d' % (ip_any(bytes(a)), l), 'offset': off}
        else:
            out[t] = '|'.join(o['op'] + str(int.from_bytes(bytes(o['v']), 'big')) for o in payload)
    return out


def enc_input(v):
    """-> the `attr` dictionary for Update.construct (plus nlri list) for a vector of kind enc"""
    u, sub = v['u'], v['sub']
    base = {1: 0, 2: [(2, [65001])], 3: '10.0.0.1'}
    if sub == 'srpol':
        base[23] = sr_policy(u)
        return base, ['192.168.7.0/24']
    if sub == 'pmsi':
        val = {'mpls_label': [u['label']], 'tunnel_type': u['ttype'], 'leaf_info_required': u['leaf'],
               'tunnel_id': ip_any(bytes(u['id'])) if u['id'] else None}
        base[22] = val
        return base, ['192.168.7.0/24']
    base = {1: 0, 2: [(2, [65001])]}
    if sub == 'v6ll':
        val = {'afi_safi': (2, 1), 'nexthop': '2001:db8::9', 'nlri': [prefix_any(q) for q in u['ps']]}
        if u['ll'] != 'absent':
            val['linklocal_nexthop'] = '' if u['ll'] == 'empty' else None
        base[14] = val
        return base, []
    if sub == 'evpnmac':
        fmt = {'short': '%x', 'upper': '%02X', 'plain': '%02x'}[u['style']]
        rt = [{'type': 2, 'value': {'rd': '172.16.0.1:5904', 'esi': esi_value([0] * 10), 'eth_tag_id': 108, 'mac': '-'.join(fmt % x for x in u['mac']), 'label': [16]}}]
        if u['reach']:
            base[14] = {'afi_safi': (25, 70), 'nexthop': '10.0.0.9', 'nlri': rt}
            return base, []
        return {15: {'afi_safi': (25, 70), 'withdraw': rt}}, []
    if sub == 'evpn5':
        val = {'rd': '172.16.0.1:5904', 'esi': 0, 'eth_tag_id': 100, 'prefix': '%s/%d' % (ip_any(bytes(u['pa'])), u['pl']), 'label': [u['label']]}
        if u['gw']:
            val['gateway'] = ip_any(bytes(u['gw']))
        rt = [{'type': 5, 'value': val}]
        if u['reach']:
            base[14] = {'afi_safi': (25, 70), 'nexthop': '10.0.0.9', 'nlri': rt}
            return base, []
        return {15: {'afi_safi': (25, 70), 'withdraw': rt}}, []
    if sub == 'pmsievpn':
        q = u['p']
        base[14] = {'afi_safi': (25, 70), 'nexthop': '10.0.0.9', 'nlri': [{'type': 3, 'value': {'rd': '172.16.0.1:5904', 'eth_tag_id': 0, 'ip': '192.168.0.1'}}]}
        base[16] = [[780, u['encap']]] if u['form'] == 'list' else ['encapsulation:%d' % u['encap']]
        base[22] = {'mpls_label': [q['label']], 'tunnel_type': q['ttype'], 'leaf_info_required': q['leaf'],
                    'tunnel_id': ip_any(bytes(q['id'])) if q['id'] else None}
        return base, []
    if sub == 'srte':
        val = {'afi_safi': (u['afi'], 73), 'nexthop': ip_any(bytes(u['nh'])) if u['nh'] else '',
               'nlri': {'distinguisher': u32(u['dist']), 'color': u32(u['color']), 'endpoint': ip_any(bytes(u['ep']))}}
        base[14] = val
        return base, []
    val = {'afi_safi': (2, 133), 'nexthop': ip_any(bytes(u['nh'])) if u['nh'] else '', 'nlri': [fs6_rule(r) for r in u['rules']]}
    base[14] = val
    return base, []
