"""Worker side of C17: spec octets -> decoder text -> REST json_to_bin / send/update -> octets again."""
import json
import world
import wire
from world import World, W
from yabgp.message.update import Update


def established(extra=None):
    w = World(dict({'hold': 0, 'las': 65001, 'ras': 65002}, **(extra or {})))
    for ev in [{'k': 'boot'}, {'k': 'connOk', 'c': 1}, {'k': 'msg', 'c': 1, 'm': 'OPEN', 'h': 0}, {'k': 'msg', 'c': 1, 'm': 'KA'}]:
        w.apply(ev)
    o = w.observe()
    assert o['st'] == 'ESTABLISHED', o['st']
    return w


def run_vector(w, i, v, asn4=True):
    ref_msg = bytes(v['b'])
    sub = v['sub']
    line = {'id': i, 'kind': 'comm', 'cls': v['u']['name'], 'sub': sub, 'asn4': True, 'ref': list(v['u']['o']), 'refmsg': list(ref_msg),
            'text': '', 'decoded': False, 'status': 0, 'bin': [], 'accepted': False, 'text2_same': False, 'wire': [], 'sent_ok': False,
            'diff': '', 'exc': 0, 'comma_same': True}
    try:
        d = Update.parse(0, ref_msg[19:], True)
        txt = d['attr'].get(sub) if d.get('attr') else None
        want = len(v['u']['o']) // 8 if v['u']['name'] == 'multi' else (len(v['u']['o']) // 12 if v['u']['name'] == 'large-multi' else 1)
        if d.get('sub_error') or not isinstance(txt, list) or len(txt) != want or not all(isinstance(t, str) for t in txt):
            line['diff'] = 'decoder gave %r (sub_error=%r)' % (txt, d.get('sub_error'))
            return line
    except Exception as e:
        line['diff'] = 'decoder raised %r' % (e,)
        return line
    line['decoded'] = True
    line['text'] = ' '.join(txt)
    body = {'attr': {'1': 0, '2': [[2, [65001]]], '3': '10.0.0.1', str(sub): txt}, 'nlri': ['192.168.7.0/24']}
    r = w.rest('POST', 'json_to_bin', body=body)
    line['status'] = r['status']
    js = r.get('json') or {}
    if r['status'] != 200 or 'bin' not in js or not isinstance(js['bin'], str):
        line['diff'] = 'json_to_bin answered %s %r' % (r['status'], js)
        return line
    try:
        b = bytes.fromhex(js['bin'])
    except ValueError:
        line['diff'] = 'bin is not hex: %r' % (js['bin'][:60],)
        return line
    line['accepted'] = True
    line['bin'] = list(b)
    try:
        d2 = Update.parse(0, b[19:], asn4)          # read back in the AS-number width of this session
        line['text2_same'] = (d2['attr'].get(sub) == txt) and not d2.get('sub_error')
        if not line['text2_same']:
            line['diff'] = 're-decoded %r' % (d2['attr'].get(sub),)
    except Exception as e:
        line['diff'] = 're-decode raised %r' % (e,)
    # the REST layer also accepts several values of one kind as a comma list ("route-target:1:1,2:2"): it must mean the same
    keys = set(t.split(':', 1)[0] for t in txt)
    if len(txt) >= 2 and len(keys) == 1 and list(keys)[0] in ('route-target', 'route-origin', 'dmzlink-bw'):
        joined = list(keys)[0] + ':' + ','.join(t.split(':', 1)[1] for t in txt)
        rj = w.rest('POST', 'json_to_bin', body={'attr': {'1': 0, '2': [[2, [65001]]], '3': '10.0.0.1', str(sub): [joined]}, 'nlri': ['192.168.7.0/24']})
        line['comma_same'] = (rj.get('json') or {}).get('bin') == js['bin']
        if not line['comma_same']:
            line['diff'] = 'comma list %r gives %r' % (joined, (rj.get('json') or {}).get('bin'))
        w.observe()
        rs = w.rest('POST', 'send/update', body={'attr': {'1': 0, '2': [[2, [65001]]], '3': '10.0.0.1', str(sub): [joined]}, 'nlri': ['192.168.7.0/24']})
        o = w.observe()
        if b''.join(x['raw'] for x in o['out']) != b:
            line['comma_same'] = False
            line['diff'] = 'comma list %r: send/update wrote other octets' % (joined,)
    # the same request through send/update must put exactly these octets on the wire
    w.observe()
    r2 = w.rest('POST', 'send/update', body=body)
    o = w.observe()
    wr = b''.join(x['raw'] for x in o['out'])
    line['wire'] = list(wr)
    line['sent_ok'] = bool((r2.get('json') or {}).get('status') is True)
    line['exc'] = len(o['errs'])
    return line


def work(args):
    k, vecs, outdir = args
    import os
    path = os.path.join(outdir, 'comm_%04d.ndjson' % k)
    n = 0
    with open(path, 'w') as fh:
        # the default session, and one on which only the PEER offered the 4-octet-AS capability (AS numbers travel in two
        # octets there, but the peer still understands the 4-octet-AS specific communities of RFC 5668)
        # ... and an internal (iBGP) session: the agent then adds the default LOCAL_PREF to the request itself
        for tag, extra in (('', None), ('@local-as2', {'four_bytes_as': False}), ('@ibgp', {'ras': 65001})):
            w = established(extra)
            for i, v in vecs:
                line = run_vector(w, i, v, asn4=(tag != '@local-as2'))
                if tag:
                    line['id'] = i + 50000000
                    line['asn4'] = (tag != '@local-as2')
                line['sess'] = tag or 'default'
                fh.write(json.dumps(line, separators=(',', ':')) + '\n')
                n += 1
    return path, n
