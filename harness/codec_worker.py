"""Worker side of the codec checks: push TLC-enumerated vectors through the REAL yabgp codec and record what it did."""
import os
import sys
import json
import re

REPO = os.environ.get('VERIF_REPO', '/repo')
if REPO not in sys.path:
    sys.path.insert(0, REPO)
import logging                                   # noqa: E402
logging.disable(logging.CRITICAL)
from yabgp.message.update import Update          # noqa: E402
from yabgp.message.open import Open              # noqa: E402
from yabgp.message.notification import Notification   # noqa: E402
from yabgp.message.keepalive import KeepAlive    # noqa: E402
from yabgp.message.route_refresh import RouteRefresh  # noqa: E402
from yabgp.common import constants as C          # noqa: E402
import wire_map as M                             # noqa: E402

# Names of well-known communities: the decoder's own table tells HOW it spells a name, the IANA registry ("BGP Well-known
# Communities", RFC 1997 / 3765 / 7611 / 7999 / 8326 / 9494 ...) tells WHICH value a name belongs to.  A value whose name in
# the decoder's table is not (a spelling of) its registered name is expected in its numeric form.
IANA_WELL_KNOWN = {
    0xFFFF0000: ('GRACEFUL_SHUTDOWN', 'PLANNED_SHUT'), 0xFFFF0001: ('ACCEPT_OWN',), 0xFFFF0002: ('ROUTE_FILTER_TRANSLATED_V4',),
    0xFFFF0003: ('ROUTE_FILTER_V4',), 0xFFFF0004: ('ROUTE_FILTER_TRANSLATED_V6',), 0xFFFF0005: ('ROUTE_FILTER_V6',),
    0xFFFF0006: ('LLGR_STALE',), 0xFFFF0007: ('NO_LLGR',), 0xFFFF0008: ('ACCEPT_OWN_NEXTHOP',), 0xFFFF0009: ('STANDBY_PE',),
    0xFFFF029A: ('BLACKHOLE',), 0xFFFFFF01: ('NO_EXPORT',), 0xFFFFFF02: ('NO_ADVERTISE',), 0xFFFFFF03: ('NO_EXPORT_SUBCONFED',),
    0xFFFFFF04: ('NOPEER', 'NO_PEER')}
NAMES = {v: n for v, n in C.WELL_KNOW_COMMUNITY_INT_2_STR.items()
         if v not in IANA_WELL_KNOWN or n.upper().replace('-', '_') in IANA_WELL_KNOWN[v]}


def diff(exp, got):
    """first difference between expected and decoded fields, as a short string"""
    for k in ('attr', 'nlri', 'withdraw'):
        e, g = M.norm(exp.get(k)), M.norm(got.get(k))
        if e != g:
            if isinstance(e, dict) and isinstance(g, dict):
                for t in sorted(set(e) | set(g)):
                    if e.get(t) != g.get(t):
                        return '%s[%s]: expected %r got %r' % (k, t, e.get(t), g.get(t))
            return '%s: expected %r got %r' % (k, e, g)
    return ''


def cls_of(v):
    if v['kind'] == 'cor':
        return v['u']['name']
    u = v['u']
    kinds = sorted(a[0] for a in u['attrs'])
    tag = 'wd%d-nl%d-attrs%s' % (len(u['wd']), len(u['nlri']), '.'.join(map(str, kinds)))
    return tag


def run_update_vector(i, v):
    asn4 = bool(v['asn4'])
    ref = bytes(v['b'])
    line = {'id': i, 'kind': v['kind'], 'cls': cls_of(v), 'asn4': asn4, 'ref': list(ref), 'impl': [], 'raised': False, 'none': False,
            'rt_ok': False, 'dec_ok': False, 'dec_err': False, 'diff': '', 'ddiff': ''}
    if v['kind'] == 'cor':
        try:
            d = Update.parse(0, ref[19:], asn4)
            line['dec_err'] = bool(d.get('sub_error'))
        except Exception as e:
            line['dec_err'] = True
            line['ddiff'] = 'raised %r' % (e,)
        return line
    var = v['var']
    inp, exp = M.update_in_out(v['u'], asn4, NAMES, pathids=var['pathids'])
    # decoder against the reference encoding (C09)
    try:
        d = Update.parse(0, ref[19:], asn4, afi_add_path={'ipv4': True} if var['pathids'] else None)
        dd = diff(exp, d)
        if d.get('sub_error'):
            dd = dd or 'sub_error=%r' % (d['sub_error'],)
        line['dec_ok'] = dd == ''
        line['ddiff'] = dd[:300]
    except Exception as e:
        line['ddiff'] = 'raised %r' % (e,)
    if v['kind'] != 'upd' or inp is None:
        return line
    # encoder + round trip (C06, C08)
    try:
        impl = Update.construct(inp, asn4)
    except Exception as e:
        line['raised'] = True
        line['diff'] = 'construct raised %r' % (e,)
        return line
    if impl is None:
        line['none'] = True
        return line
    line['impl'] = list(impl)
    try:
        d = Update.parse(0, impl[19:], asn4)
        dd = diff(exp, d)
        if d.get('sub_error'):
            dd = dd or 'sub_error=%r' % (d['sub_error'],)
        line['rt_ok'] = dd == ''
        line['diff'] = dd[:300]
    except Exception as e:
        line['diff'] = 'parse raised %r' % (e,)
    return line


def first_diff(e, g):
    e, g = M.norm(e), M.norm(g)
    if e == g:
        return ''
    if isinstance(e, dict) and isinstance(g, dict):
        for k in sorted(set(e) | set(g)):
            if e.get(k) != g.get(k):
                sub = first_diff(e.get(k), g.get(k)) if isinstance(e.get(k), dict) and isinstance(g.get(k), dict) else 'expected %r got %r' % (e.get(k), g.get(k))
                return '%s: %s' % (k, sub)
    return 'expected %r got %r' % (e, g)


def run_session_msg_vector(i, v):
    """OPEN / NOTIFICATION / KEEPALIVE / ROUTE-REFRESH vectors (C14, C08)"""
    kind, u = v['kind'], v['u']
    ref = bytes(v['b'])
    cls = kind
    if kind in ('open', 'openrt'):
        cls = '%s-caps%s-%s-as%s' % (kind, '.'.join(str(c[0]) for c in u['caps']), u['pack'], 'hi' if u['as'][0] else 'lo')
    line = {'id': i, 'kind': kind, 'cls': cls, 'asn4': False, 'ref': list(ref), 'impl': [], 'raised': False, 'none': False,
            'rt_ok': False, 'dec_ok': False, 'dec_err': False, 'diff': '', 'ddiff': ''}

    def parse(msg):
        body = msg[19:]
        if kind in ('open', 'openrt'):
            return Open().parse(body)
        if kind == 'notif':
            return list(Notification.parse(body))
        if kind == 'rr':
            return list(RouteRefresh().parse(body))
        KeepAlive.parse(body)
        return 'ok'
    if kind in ('open', 'openrt'):
        exp = M.open_expected(u, C.AFI_SAFI_DICT, C.ADD_PATH_ACT_DICT)
    elif kind == 'notif':
        exp = [u['code'], u['sub'], bytes(u['data'])]
    elif kind == 'rr':
        exp = [u['afi'], u['res'], u['safi']]
    else:
        exp = 'ok'
    try:
        d = parse(ref)
        dd = first_diff(exp, d) if not (isinstance(exp, list) and isinstance(d, list)) else ('' if exp == d else 'expected %r got %r' % (exp, d))
        line['dec_ok'] = dd == ''
        line['ddiff'] = dd[:300]
    except Exception as e:
        line['ddiff'] = 'raised %r' % (e,)
    if kind == 'open':
        return line
    try:
        if kind == 'openrt':
            asn, hold, bid, cap = M.open_construct_input(u)
            impl = Open(version=u['ver'], asn=asn, hold_time=hold, bgp_id=bid).construct(cap)
        elif kind == 'notif':
            impl = Notification().construct(u['code'], u['sub'], bytes(u['data']))
        elif kind == 'rr':
            impl = RouteRefresh(u['afi'], u['safi'], u['res']).construct(u['typ'])
        else:
            impl = KeepAlive().construct()
    except Exception as e:
        line['raised'] = True
        line['diff'] = 'construct raised %r' % (e,)
        return line
    if impl is None:
        line['none'] = True
        return line
    line['impl'] = list(impl)
    try:
        d = parse(impl)
        dd = first_diff(exp, d) if not (isinstance(exp, list) and isinstance(d, list)) else ('' if exp == d else 'expected %r got %r' % (exp, d))
        line['rt_ok'] = dd == ''
        line['diff'] = dd[:300]
    except Exception as e:
        line['diff'] = 'parse raised %r' % (e,)
    return line


def run_addpath_vector(i, v):
    """UPDATE constructed / decoded with add-path identifiers"""
    ref = bytes(v['b'])
    u = v['u']
    line = {'id': i, 'kind': 'updap', 'cls': 'wd%d-nl%d-ids%s' % (len(u['wd']), len(u['nlri']), '.'.join(str(x[3]) + ('hi' if x[0] else '') for x in v['wids'] + v['nids'])),
            'asn4': True, 'ref': list(ref), 'impl': [], 'raised': False, 'none': False, 'rt_ok': False, 'dec_ok': False, 'dec_err': False, 'diff': '', 'ddiff': ''}
    inp, exp = M.update_in_out(u, True, NAMES)

    def pid(x):
        return (x[0] << 24) + (x[1] << 16) + (x[2] << 8) + x[3]
    exp['nlri'] = [{'prefix': p, 'path_id': pid(a)} for p, a in zip(exp['nlri'], v['nids'])]
    exp['withdraw'] = [{'prefix': p, 'path_id': pid(a)} for p, a in zip(exp['withdraw'], v['wids'])]
    try:
        d = Update.parse(0, ref[19:], True, afi_add_path={'ipv4': True})
        dd = diff(exp, d)
        if d.get('sub_error'):
            dd = dd or 'sub_error=%r' % (d['sub_error'],)
        line['dec_ok'] = dd == ''
        line['ddiff'] = dd[:300]
    except Exception as e:
        line['ddiff'] = 'raised %r' % (e,)
    inp['nlri'] = list(exp['nlri'])
    inp['withdraw'] = list(exp['withdraw'])
    try:
        impl = Update.construct(inp, True, True)
    except Exception as e:
        line['raised'] = True
        line['diff'] = 'construct raised %r' % (e,)
        return line
    if impl is None:
        line['none'] = True
        return line
    line['impl'] = list(impl)
    return line


def run_mp_vector(i, v):
    """MP_REACH / MP_UNREACH vectors of the families yabgp both encodes and decodes (C07, C08)"""
    ref = bytes(v['b'])
    n = len(v['routes'])
    def tag(r):
        f = v['fam']
        if f == 'ipv6':
            return 'l%d' % r['l']
        if f in ('lu4', 'lu6'):
            return 'lab%s.l%d' % ('+'.join(map(str, r['labels'])), r['p']['l'])
        if f in ('vpn4', 'vpn6'):
            return 'lab%s.rd%d.l%d' % ('+'.join(map(str, r['labels'])), r['rd'][0], r['p']['l'])
        if f == 'evpn':
            x = r[1]
            return 't%d.esi%s.ip%d' % (r[0], x['esi'][0] if 'esi' in x else '-', len(x.get('ip', [])))
        return 'c' + '.'.join(str(c[0]) + ('' if c[0] in (1, 2) else 'x%d' % len(c[1])) for c in r)
    cls = '%s-%s-%s' % (v['fam'], 'reach' if v['reach'] else 'unreach', ','.join(tag(r) for r in v['routes']))
    # traits that known findings are keyed on
    if v['fam'] in ('lu4', 'lu6') and v['reach'] and any(r['labels'][-1] == 0 for r in v['routes']):
        cls = '%s-reach-lastlabel0' % v['fam']
    if v['fam'] == 'ipv6' and len(v['routes']) >= 2 and all(r['l'] == 0 for r in v['routes'][-2:]):
        cls = 'ipv6-%s-ends-with-two-default-routes' % ('reach' if v['reach'] else 'unreach')
    line = {'id': i, 'kind': 'mp', 'cls': cls, 'asn4': True, 'ref': list(ref), 'impl': [],
            'raised': False, 'none': False, 'rt_ok': False, 'dec_ok': False, 'dec_err': False, 'diff': '', 'ddiff': ''}
    t, vin, vout = M.mp_in_out(v)
    base_in = {1: 0, 2: [(2, [65001])]} if v['reach'] else {}
    exp_attr = dict(base_in)
    exp_attr[t] = vout
    exp = {'attr': exp_attr, 'nlri': [], 'withdraw': []}
    try:
        d = Update.parse(0, ref[19:], True)
        dd = diff(exp, d)
        if d.get('sub_error'):
            dd = dd or 'sub_error=%r' % (d['sub_error'],)
        line['dec_ok'] = dd == ''
        line['ddiff'] = dd[:300]
    except Exception as e:
        line['ddiff'] = 'raised %r' % (e,)
    inp = dict(base_in)
    inp[t] = vin
    try:
        impl = Update.construct({'attr': inp}, True)
    except Exception as e:
        line['raised'] = True
        line['diff'] = 'construct raised %r' % (e,)
        return line
    if impl is None:
        line['none'] = True
        return line
    line['impl'] = list(impl)
    try:
        d = Update.parse(0, impl[19:], True)
        dd = diff(exp, d)
        if d.get('sub_error'):
            dd = dd or 'sub_error=%r' % (d['sub_error'],)
        line['rt_ok'] = dd == ''
        line['diff'] = dd[:300]
    except Exception as e:
        line['diff'] = 'parse raised %r' % (e,)
    return line


def run_enc_vector(i, v):
    """construct-only families (SR policy in a tunnel encapsulation attribute, PMSI tunnel, SR policy NLRI, IPv6 flowspec):
    build the UPDATE with the real encoder; TLC's walker judges what comes out (C08)"""
    u = v['u']
    if v['sub'] == 'srpol':
        cls = 'srpol-%s-l%d-s%s' % (u['enc'], len(u['lists']), '.'.join(str(len(sl['segs'])) for sl in u['lists']))
    elif v['sub'] == 'evpnmac':
        cls = 'evpnmac-%s-%s' % (u['style'], 'reach' if u['reach'] else 'unreach')
    elif v['sub'] == 'v6ll':
        cls = 'v6ll-%s-n%d' % (u['ll'], len(u['ps']))
    elif v['sub'] == 'evpn5':
        cls = 'evpn5-%s-p%d.%d-gw%d' % ('reach' if u['reach'] else 'unreach', len(u['pa']), u['pl'], len(u['gw']))
    elif v['sub'] == 'pmsievpn':
        cls = 'pmsievpn-t%d-encap%d-%s' % (u['p']['ttype'], u['encap'], u['form'])
    elif v['sub'] == 'pmsi':
        cls = 'pmsi-t%d-id%d' % (u['ttype'], len(u['id']))
    elif v['sub'] == 'srte':
        cls = 'srte-afi%d-nh%d-ep%d' % (u['afi'], len(u['nh']), len(u['ep']))
    else:
        cls = 'fs6-' + ','.join('c' + '.'.join(str(c[0]) + ('p%d.%d' % (c[1][0], c[1][1]) if c[0] in (1, 2) else 'x%d' % len(c[1])) for c in r) for r in u['rules'])
    line = {'id': i, 'kind': 'enc', 'cls': cls[:80], 'asn4': True, 'ref': list(v['b']), 'impl': [], 'raised': False, 'none': False,
            'rt_ok': False, 'dec_ok': False, 'dec_err': False, 'diff': '', 'ddiff': ''}
    try:
        attr, nlri = M.enc_input(v)
        impl = Update.construct({'attr': attr, 'nlri': nlri}, True)
    except Exception as e:
        line['raised'] = True
        line['diff'] = 'construct raised %r' % (e,)
        return line
    if not impl:
        line['none'] = True
        return line
    line['impl'] = list(impl)
    if bytes(impl) != bytes(v['b']):
        line['diff'] = 'octets differ from the reference encoding'
    return line


_QUAD = re.compile(r'^(\d{1,3})\.(\d{1,3})\.(\d{1,3})\.(\d{1,3})(/\d{1,2})?$')


def respell(x, digits):
    """every dotted-quad text (address or prefix) inside a request, written with at least `digits` digits per octet"""
    if isinstance(x, str):
        m = _QUAD.match(x)
        if m:
            return '.'.join('%0*d' % (digits, int(g)) for g in m.groups()[:4]) + (m.group(5) or '')
        return x
    if isinstance(x, (list, tuple)):
        return type(x)(respell(i, digits) for i in x)
    if isinstance(x, dict):
        return {k: respell(val, digits) for k, val in x.items()}
    return x


def run_spell_vector(i, v):
    """C06 on other spellings of the same values: refused, or decoded to what the text denotes"""
    ref = bytes(v['b'])
    u = v['u']
    line = {'id': i, 'kind': 'updspell', 'cls': 'spell%d-attrs%s-wd%d-nl%d' % (v['sp'], '.'.join(str(a[0]) for a in u['attrs']), len(u['wd']), len(u['nlri'])),
            'asn4': v['asn4'], 'ref': list(ref), 'impl': [], 'raised': False, 'none': False, 'rt_ok': False, 'dec_ok': False, 'dec_err': False, 'diff': '', 'ddiff': ''}
    inp, exp = M.update_in_out(u, v['asn4'], NAMES)
    try:
        # one thing at a time: the addresses inside the attributes, or (when the attributes are the base set) the prefixes
        if [a[0] for a in u['attrs']] == [1, 2, 3] and tuple(u['attrs'][2][1]) == (10, 0, 0, 1):
            req = dict(inp, nlri=respell(inp['nlri'], v['sp']), withdraw=respell(inp['withdraw'], v['sp']))
        else:
            req = dict(inp, attr=respell(inp['attr'], v['sp']))
        impl = Update.construct(req, v['asn4'])
    except Exception as e:
        line['raised'] = True
        line['diff'] = 'construct raised %r' % (e,)
        return line
    if impl is None:
        line['none'] = True
        return line
    line['impl'] = list(impl)
    try:
        d = Update.parse(0, impl[19:], v['asn4'])
        dd = diff(exp, d)
        if d.get('sub_error'):
            dd = dd or 'sub_error=%r' % (d['sub_error'],)
        line['rt_ok'] = dd == ''
        line['diff'] = dd[:300]
    except Exception as e:
        line['diff'] = 'parse raised %r' % (e,)
    return line


def run_mpdec_vector(i, v):
    """IPv4 unicast inside MP_REACH_NLRI / MP_UNREACH_NLRI in every encoding variant: decode only (C09)"""
    ref = bytes(v['b'])
    u, var = v['u'], v['var']
    line = {'id': i, 'kind': 'mpdec', 'cls': 'mp4-%s-n%d-%s' % ('reach' if u['reach'] else 'unreach', len(u['ps']),
                                                                  ''.join(k[0] for k in ('ext', 'dirty', 'pathids') if var[k]) or 'canon'),
            'asn4': True, 'ref': list(ref), 'impl': [], 'raised': False, 'none': False, 'rt_ok': False, 'dec_ok': False, 'dec_err': False, 'diff': '', 'ddiff': ''}
    pf = [M.prefix4(p) for p in u['ps']]
    if var['pathids']:
        pf = [{'prefix': p, 'path_id': k + 1} for k, p in enumerate(pf)]
    if u['reach']:
        exp = {'attr': {1: 0, 2: [(2, [65001])], 14: {'afi_safi': (1, 1), 'nexthop': '10.0.0.9', 'nlri': pf}}, 'nlri': [], 'withdraw': []}
    else:
        exp = {'attr': {15: {'afi_safi': (1, 1), 'withdraw': pf}}, 'nlri': [], 'withdraw': []}
    try:
        d = Update.parse(0, ref[19:], True, afi_add_path={'ipv4': True} if var['pathids'] else None)
        dd = diff(exp, d)
        if d.get('sub_error'):
            dd = dd or 'sub_error=%r' % (d['sub_error'],)
        line['dec_ok'] = dd == ''
        line['ddiff'] = dd[:300]
    except Exception as e:
        line['ddiff'] = 'raised %r' % (e,)
    return line


def run_fsdec_vector(i, v):
    """flowspec rules in encodings the agent never emits (8-octet operator values): decode only (C09)"""
    ref = bytes(v['b'])
    u = v['u']
    line = {'id': i, 'kind': 'mpdec', 'cls': 'fs8-%s-n%d' % ('reach' if u['reach'] else 'unreach', len(u['rules'])),
            'asn4': True, 'ref': list(ref), 'impl': [], 'raised': False, 'none': False, 'rt_ok': False, 'dec_ok': False, 'dec_err': False, 'diff': '', 'ddiff': ''}
    rules = [M.fs_rule(r) for r in u['rules']]
    if u['reach']:
        exp = {'attr': {1: 0, 2: [(2, [65001])], 14: {'afi_safi': (1, 133), 'nexthop': '', 'nlri': rules}}, 'nlri': [], 'withdraw': []}
    else:
        exp = {'attr': {15: {'afi_safi': (1, 133), 'withdraw': rules}}, 'nlri': [], 'withdraw': []}
    try:
        d = Update.parse(0, ref[19:], True)
        dd = diff(exp, d)
        if d.get('sub_error'):
            dd = dd or 'sub_error=%r' % (d['sub_error'],)
        line['dec_ok'] = dd == ''
        line['ddiff'] = dd[:300]
    except Exception as e:
        line['ddiff'] = 'raised %r' % (e,)
    return line


def _run_vector(i, v):
    if v['kind'] == 'fsdec':
        return run_fsdec_vector(i, v)
    if v['kind'] == 'mpdec':
        return run_mpdec_vector(i, v)
    if v['kind'] == 'updspell':
        return run_spell_vector(i, v)
    if v['kind'] == 'mp':
        return run_mp_vector(i, v)
    if v['kind'] == 'enc':
        return run_enc_vector(i, v)
    if v['kind'] == 'updap':
        return run_addpath_vector(i, v)
    if v['kind'] in ('upd', 'updvar', 'cor'):
        return run_update_vector(i, v)
    return run_session_msg_vector(i, v)


def _same(a, b):
    for key in a:
        if key not in ('id',) and a[key] != b.get(key):
            return '%s: %r then %r' % (key, str(a[key])[:60], str(b.get(key))[:60])
    return ''


class _Watchdog(BaseException):
    pass


def _guarded_run(i, v, seconds=20):
    """run_vector under a watchdog: a codec call that does not come back is recorded as a raised error, not waited for"""
    import signal

    def boom(signum, frame):
        raise _Watchdog()
    old = signal.signal(signal.SIGALRM, boom)
    signal.alarm(seconds)
    try:
        return _run_vector(i, v)
    except _Watchdog:
        return {'id': i, 'kind': v['kind'], 'cls': 'no-answer-within-%ds' % seconds, 'asn4': bool(v.get('asn4', True)), 'ref': list(v.get('b', [])), 'impl': [],
                'raised': True, 'none': False, 'rt_ok': False, 'dec_ok': False, 'dec_err': False, 'diff': 'codec call did not return within %d s' % seconds,
                'ddiff': 'codec call did not return within %d s' % seconds}
    finally:
        signal.alarm(0)
        signal.signal(signal.SIGALRM, old)


def work(args):
    """Every vector is evaluated three times: twice in a row, and once more after all the others in reverse order.
    The codec is a function of its input: all three evaluations must give the same result (clause <prop>.pure) -
    a result that depends on what was encoded or decoded before (a stale cache, a shared buffer, a class attribute
    left behind) shows up here."""
    k, vecs, outdir = args
    path = os.path.join(outdir, 'codec_%04d.ndjson' % k)
    lines = []
    for i, v in vecs:
        a = run_vector(i, v)
        b = run_vector(i, v)
        a['pure'], a['impure'] = True, ''
        d = _same({x: a[x] for x in a if x not in ('pure', 'impure')}, b)
        if d:
            a['pure'], a['impure'] = False, 'immediate repeat differs: ' + d
        lines.append(a)
    for (i, v), a in zip(reversed(vecs), reversed(lines)):
        if a['pure']:
            d = _same({x: a[x] for x in a if x not in ('pure', 'impure')}, run_vector(i, v))
            if d:
                a['pure'], a['impure'] = False, 'later repeat (after the other vectors, reverse order) differs: ' + d
    with open(path, 'w') as fh:
        for a in lines:
            fh.write(json.dumps(a, separators=(',', ':')) + '\n')
    return path, len(vecs)


def run_vector(i, v):
    return _guarded_run(i, v)


def repass(args):
    """One process evaluates every vector once more, in reverse order of the whole set, and compares with what the
    parallel workers recorded: state shared between calls (class attributes, module tables) that lets one input
    influence the result of another one is seen here even when the two inputs went to different workers."""
    vecs, nd = args
    byid = {}
    order = []
    with open(nd) as fh:
        for line in fh:
            d = json.loads(line)
            byid[d['id']] = d
            order.append(d['id'])
    # first warm the process with a forward pass (fills whatever caches there may be), then judge a reverse pass
    for i, v in vecs:
        run_vector(i, v)
    n = 0
    for i, v in reversed(vecs):
        a = byid.get(i)
        if a is None or not a.get('pure', True):
            continue
        d = _same({x: a[x] for x in a if x not in ('pure', 'impure')}, run_vector(i, v))
        if d:
            a['pure'], a['impure'] = False, 'evaluation in one process after all other vectors differs: ' + d
            n += 1
    with open(nd, 'w') as fh:
        for i in order:
            fh.write(json.dumps(byid[i], separators=(',', ':')) + '\n')
    return n
