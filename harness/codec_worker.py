"""Worker side of the codec checks: push TLC-enumerated vectors through the REAL yabgp codec and record what it did."""
import os
import sys
import json

REPO = os.environ.get('VERIF_REPO', '/repo')
if REPO not in sys.path:
    sys.path.insert(0, REPO)
import logging                                   # noqa: E402
logging.disable(logging.CRITICAL)
from yabgp.message.update import Update          # noqa: E402
from yabgp.common import constants as C          # noqa: E402
import wire_map as M                             # noqa: E402

NAMES = dict(C.WELL_KNOW_COMMUNITY_INT_2_STR)


def diff(exp, got):
    """first difference between expected and decoded fields, as a short string"""
    for k in ('attr', 'nlri', 'withdraw'):
        e, g = M.norm(exp.get(k)), M.norm(got.get(k))
        if e != g:
            if isinstance(e, dict) and isinstance(g, dict):
                for t in sorted(set(e) | set(g)):
                    if e.get(t) != g.get(t):
                        return '%s[%s]: expected %r got %r' % (k, t, e.get(t), g.get(t))
            return '%s: expected %r got %r' % (k, e, g)
    return ''


def cls_of(v):
    if v['kind'] == 'cor':
        return v['u']['name']
    u = v['u']
    kinds = sorted(a[0] for a in u['attrs'])
    tag = 'wd%d-nl%d-attrs%s' % (len(u['wd']), len(u['nlri']), '.'.join(map(str, kinds)))
    return tag


def run_update_vector(i, v):
    asn4 = bool(v['asn4'])
    ref = bytes(v['b'])
    line = {'id': i, 'kind': v['kind'], 'cls': cls_of(v), 'asn4': asn4, 'ref': list(ref), 'impl': [], 'raised': False, 'none': False,
            'rt_ok': False, 'dec_ok': False, 'dec_err': False, 'diff': '', 'ddiff': ''}
    if v['kind'] == 'cor':
        try:
            d = Update.parse(0, ref[19:], asn4)
            line['dec_err'] = bool(d.get('sub_error'))
        except Exception as e:
            line['dec_err'] = True
            line['ddiff'] = 'raised %r' % (e,)
        return line
    var = v['var']
    inp, exp = M.update_in_out(v['u'], asn4, NAMES, pathids=var['pathids'])
    # decoder against the reference encoding (C09)
    try:
        d = Update.parse(0, ref[19:], asn4, afi_add_path={'ipv4': True} if var['pathids'] else None)
        dd = diff(exp, d)
        if d.get('sub_error'):
            dd = dd or 'sub_error=%r' % (d['sub_error'],)
        line['dec_ok'] = dd == ''
        line['ddiff'] = dd[:300]
    except Exception as e:
        line['ddiff'] = 'raised %r' % (e,)
    if v['kind'] != 'upd' or inp is None:
        return line
    # encoder + round trip (C06, C08)
    try:
        impl = Update.construct(inp, asn4)
    except Exception as e:
        line['raised'] = True
        line['diff'] = 'construct raised %r' % (e,)
        return line
    if impl is None:
        line['none'] = True
        return line
    line['impl'] = list(impl)
    try:
        d = Update.parse(0, impl[19:], asn4)
        dd = diff(exp, d)
        if d.get('sub_error'):
            dd = dd or 'sub_error=%r' % (d['sub_error'],)
        line['rt_ok'] = dd == ''
        line['diff'] = dd[:300]
    except Exception as e:
        line['diff'] = 'parse raised %r' % (e,)
    return line


def work(args):
    k, vecs, outdir = args
    path = os.path.join(outdir, 'codec_%04d.ndjson' % k)
    with open(path, 'w') as fh:
        for i, v in vecs:
            fh.write(json.dumps(run_update_vector(i, v), separators=(',', ':')) + '\n')
    return path, len(vecs)
