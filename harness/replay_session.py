"""spec -> code: replay behaviours of spec/Session.tla (walks over the TLC state graph) on the real yabgp
session layer, compare the projected real state with the model state after every step (drift) and record the
observable side of the execution as ndjson trace lines for TraceProps.tla (code -> spec).

Runs inside worker processes started by session.py (the world needs the shim on sys.path)."""
import json
import world
from world import World, W, OFF

MSG_CLS = {'OPEN': 'OPEN_OK', 'OPENBADVER': 'OPEN_BADVER', 'OPENBADAS': 'OPEN_BADAS', 'OPENSHORT': 'OPEN_SHORT',
           'KA': 'KA', 'KABODY': 'KA_BODY', 'UPD': 'UPD', 'UPDR': 'UPD', 'UPDBAD': 'UPD_BAD', 'UPDBADORIGIN': 'UPD_BAD',
           'NOTIFVER': 'NOTIF_VER', 'NOTIF': 'NOTIF', 'NOTIFSHORT': 'NOTIF_SHORT', 'RR': 'RR', 'RR128': 'RR',
           'RRBAD': 'RR_BAD', 'BADMARKER': 'HDR_MARKER', 'BADLEN': 'HDR_LEN', 'BADLENSMALL': 'HDR_LEN',
           'BADTYPE': 'HDR_TYPE'}
# statistics bucket and minimum frame length per type (RFC 4271 4.x, RFC 2918)
BUCKET = {1: ('O', 29), 2: ('U', 23), 3: ('N', 21), 4: ('K', 19), 5: ('R', 23), 128: ('R', 23)}
STATKEY = [('O', 'Opens'), ('U', 'Updates'), ('N', 'Notifications'), ('K', 'Keepalives'), ('R', 'RouteRefresh')]


# model-level REST request kinds (Session.tla, action Rest) -> the real request and its description for the C16 clauses
_RQ0 = {'cls': '', 'valid': False, 'etype': '', 'wdn': 0, 'nln': 0, 'ats': [], 'ibgp': False, 'lp': -1, 'aspl': -1, 'rr': [-1, -1, -1]}
_UPD_BODY = {'attr': {'1': 0, '2': [[2, [65001]]], '3': '10.0.0.1'}, 'nlri': ['10.5.0.0/16']}
REST_KINDS = {
    'SEND_UPDATE': ('send/update', 'POST', 'good', _UPD_BODY, dict(_RQ0, cls='send', valid=True, etype='UPDATE', nln=1, ats=[1, 2, 3])),
    'SEND_RR': ('send/route-refresh', 'POST', 'good', {'afi': 1, 'safi': 1}, dict(_RQ0, cls='send', valid=True, etype='RR')),
    'READ_STATE': ('state', 'GET', 'good', None, dict(_RQ0, cls='read')),
    'BADCRED_SEND': ('send/update', 'POST', 'badpass', _UPD_BODY, dict(_RQ0, cls='send', valid=True, etype='UPDATE', nln=1, ats=[1, 2, 3])),
    'BADCRED_STOP': ('manual-stop', 'GET', 'none', None, dict(_RQ0, cls='ctl')),
}


def world_cfg(consts, extra=None):
    """Model constants (ticks) -> agent configuration (seconds)."""
    tick = consts['TICKNUM'] / consts['TICKDEN']
    c = dict(tick=tick, crt=int(round(consts['CRT'] * tick)), hold=consts['HOLDCFG'],
             idle=int(round(consts['IDLEHOLD'] * tick)))
    c.update(extra or {})
    return c


def ev_class(ev):
    k = ev['k']
    if k == 'msg':
        c = MSG_CLS[ev['m']]
        if c == 'OPEN_OK' and ev.get('h') in (1, 2):
            return 'OPEN_BADHOLD'
        return c
    if k == 'fire':
        return 'T_' + ev['t'].upper()
    return {'boot': 'BOOT', 'connOk': 'CONN_OK', 'connRefused': 'CONN_FAIL', 'tcpTimeout': 'CONN_FAIL',
            'connLost': 'CONN_LOST', 'tick': 'TICK', 'stop': 'STOP', 'start': 'START', 'rest': 'REST',
            'data': ev.get('cls', 'DATA'), 'firedue': 'T_DUE', 'coop': 'COOP', 'enqueue': 'ENQUEUE'}[k]


class Recorder(object):
    """Observable bookkeeping for one execution: per-connector wire counts, trace lines."""

    def __init__(self, w, tid, cfgline):
        self.w = w
        self.tid = tid
        self.i = 0
        self.lines = []
        self.sent = {}     # connector idx -> {bucket: n} counted from the transport write log
        self.recv = {}     # connector idx -> {bucket: n} counted from what the harness delivered
        self.pre = self.summ(w.observe())
        first = dict(cfgline)
        first.update(tid=tid, i=0, k='cfg')
        self.lines.append(first)

    @staticmethod
    def cnt():
        return {'O': 0, 'U': 0, 'N': 0, 'K': 0, 'R': 0}

    def summ(self, o):
        conns = o['conns']
        tr = o['cur']
        cs = [c['cs'] for c in conns.values()]
        return {'st': o['st'], 'live': sum(1 for c in cs if c in ('connecting', 'open')),
                'open': sum(1 for c in cs if c == 'open'), 'n': self.w.npos, 'tr': tr,
                'trcs': (conns[tr]['cs'] if tr in conns else 'closed') if tr else 'none',
                'leak': sum(1 for i, c in conns.items() if c['cs'] == 'open' and i != tr),
                'pend': o['pending'] + sum(1 for c in cs if c == 'closing'), 'o': o}

    def note_delivery(self, c, data):
        """Count well-framed messages of at least the type's minimum length delivered on an open connection."""
        k = self.w.conn(c)
        if self.w.cs(k) != 'open' or getattr(k, '_desync', False):
            return
        frames, _ = world.wire.split_frames(data)
        for typ, body, raw in frames:
            if typ == -1 or len(raw) > 4096:
                k._desync = True
                return
            b = BUCKET.get(typ)
            if b is None:
                k._desync = True       # unknown type: framing error, the stream is dead
                return
            if len(raw) >= b[1]:
                self.recv.setdefault(c, self.cnt())[b[0]] += 1

    def step(self, ev, real_c, data=None, extra=None):
        """Apply one event on the real agent (already checked to be possible) and record it."""
        w = self.w
        e = dict(ev)
        e['c'] = real_c
        pre = self.pre
        ccs = w.cs(w.conn(real_c)) if real_c else 'none'
        if ev['k'] in ('msg', 'data'):
            self.note_delivery(real_c, data if data is not None else w.peer_bytes(e))
        prestat = pre['o']['stat']
        if ev['k'] == 'rest' and 'rule' not in ev:
            rule, method, cred, body, rq = REST_KINDS[ev['m']]
            e.update(rule=rule, method=method, cred=cred, body=body)
            extra = dict(extra or {}, rq=rq)
        w.apply(e)
        o = w.observe()
        if ev['k'] == 'rest':
            extra = dict(extra or {}, statsame=(prestat == o['stat']))
        if ev['k'] == 'firedue' and w.last_fired:
            extra = dict(extra or {}, cls='T_' + w.last_fired.upper(), t=w.last_fired)
        post = self.summ(o)
        for d in o['out']:
            typ = d['type']
            if typ == 'GARBAGE' and ev['k'] == 'rest' and e.get('rule') == 'send/bin_update':
                typ = 'UPDATE'        # octets the operator handed to send/bin_update travel (and count) as the UPDATE they stand for
            b = BUCKET.get({'OPEN': 1, 'UPDATE': 2, 'NOTIFICATION': 3, 'KEEPALIVE': 4, 'RR': 5}.get(typ, 0))
            if b:
                self.sent.setdefault(d['c'], self.cnt())[b[0]] += 1
        self.i += 1
        tr = post['tr']
        st = o['stat']
        line = {
            'tid': self.tid, 'i': self.i, 'pnow': pre['o']['now'], 'now': o['now'], 'k': ev['k'], 'cls': ev_class(ev), 'c': real_c,
            'm': ev.get('m', ''), 'h': ev.get('h', 0), 't': ev.get('t', ''),
            'ontr': bool(real_c and real_c == pre['tr']), 'ccs': ccs,
            'pst': pre['st'], 'st': post['st'], 'plive': pre['live'], 'live': post['live'],
            'popen': pre['open'], 'open': post['open'], 'pn': pre['n'], 'n': post['n'],
            'ptr': pre['tr'], 'tr': tr, 'ptrcs': pre['trcs'], 'trcs': post['trcs'],
            'pleak': pre['leak'], 'leak': post['leak'], 'pend': post['pend'],
            'out': [self.out_rec(d) for d in o['out']],
            'rep': [r[0] for r in o['rep']], 'closes': o['closes'], 'att': o['attempts'],
            'exc': len(o['errs']), 'hang': 'HANG' in o['errs'],
            'sS': [st['s'][k] for _, k in STATKEY] if st else [],
            'sR': [st['r'][k] for _, k in STATKEY] if st else [],
            'wS': [self.sent.get(tr, self.cnt())[b] for b, _ in STATKEY] if tr else [],
            'wR': [self.recv.get(tr, self.cnt())[b] for b, _ in STATKEY] if tr else [],
            'rest': self.rest_rec(o['rest']),
            'fz': '', 'flen': 0, 'probeok': True, 'rptsame': True, 'aspathok': True, 'binsame': True, 'acc': 0, 'esub': 0,
            'rq': dict(_RQ0), 'statsame': True,
        }
        if extra:
            line.update(extra)
        if ev['k'] == 'data':
            line['hex'] = ev['hex'] if len(ev['hex']) <= 20000 else ev['hex'][:200] + '...(%d octets)' % (len(ev['hex']) // 2)
        self.lines.append(line)
        self.pre = post
        return o

    @staticmethod
    def out_rec(d):
        r = {'c': d['c'], 'type': d['type'], 'code': d['code'], 'sub': d['sub'], 'len': d['len']}
        if d['type'] == 'UPDATE':
            r.update(wdn=d.get('wdn', -1), nln=d.get('nln', -1), ats=d.get('ats', []), lp=d.get('lp', -1), aspl=d.get('aspl', -1))
        # (ROUTE-REFRESH: address family, reserved octet, subsequent address family as written)
        r['rr'] = [d.get('afi', -1), d.get('res', -1), d.get('safi', -1)] if d['type'] == 'RR' else [-1, -1, -1]
        if d['type'] == 'OPEN':
            r.update(wf=bool(d.get('wf')), ver=d.get('ver', 0), my_as=d.get('my_as', 0), hold=d.get('hold', 0),
                     as_hi=d.get('as_hi', 0), as_lo=d.get('as_lo', 0), id_hi=d.get('id_hi', 0), id_lo=d.get('id_lo', 0),
                     caps=d.get('caps', []), has_as4=bool(d.get('has_as4')))
        return r

    @staticmethod
    def rest_rec(r):
        if not r:
            return {'rule': '', 'method': '', 'cred': '', 'status': 0, 'ok': 0, 'hasbin': False}
        js = r.get('json')
        ok = 0
        if isinstance(js, dict) and 'status' in js:
            ok = 1 if js['status'] is True else 2
        return {'rule': r['rule'], 'method': r['method'], 'cred': r['cred'], 'status': r['status'], 'ok': ok,
                'hasbin': isinstance(js, dict) and 'bin' in js}


def compare(ms, o, lmap):
    """Model state vs projected real state.  -> list of differences (empty = conformant)."""
    d = []
    for k in ('st', 'allow', 'hold'):
        if ms[k] != o[k]:
            d.append((k, ms[k], o[k]))
    if bool(ms['estab']) != bool(o['estab']):
        d.append(('estab', ms['estab'], o['estab']))
    for t in ('cr', 'hold', 'ka', 'idle'):
        if abs(ms['tm'][t] - o['tm'][t]) > 1e-6:
            d.append(('tm.' + t, ms['tm'][t], o['tm'][t]))
    rc = [o['conns'][i] for i in lmap]
    if len(ms['conns']) != len(rc):
        d.append(('nconns', len(ms['conns']), len(rc)))
    else:
        for j, (a, b) in enumerate(zip(ms['conns'], rc)):
            if a['cs'] != b['cs'] or abs(a['to'] - b['to']) > 1e-6:
                d.append(('conn%d' % (j + 1), (a['cs'], a['to']), (b['cs'], b['to'])))
        mcur = lmap[ms['cur'] - 1] if ms['cur'] else 0
        rcur = o['cur'] if o['cur'] in lmap else 0
        if mcur != rcur:
            d.append(('cur', mcur, rcur))
    return d


def compare_out(mout, mrep, o, lmap_pre_post):
    d = []
    mo = [(lmap_pre_post[x['c'] - 1] if x['c'] <= len(lmap_pre_post) else -1, x['type'], x['code'] if x['type'] != 'OPEN' else 0, x['sub'])
          for x in mout]
    ro = [(x['c'], x['type'], x['code'], x['sub']) for x in o['out']]
    if mo != ro:
        d.append(('out', mo, ro))
    rr = [r[0] for r in o['rep']]
    if list(mrep) != rr:
        d.append(('rep', list(mrep), rr))
    for x, y in zip(mout, o['out']):
        if x['type'] == 'OPEN' and y.get('hold') != x['code']:
            d.append(('open.hold', x['code'], y.get('hold')))
    return d


def replay_walk(g, walk, tid, wcfg, cfgline, tail=0, coop=False):
    """Replay one walk.  Returns (trace lines, drift record or None, number of steps, covered edge list)."""
    w = World(wcfg)
    rec = Recorder(w, tid, cfgline)
    drift = None
    covered = []
    steps = 0
    for (u, i) in walk:
        ev, mout, mrep, v, matt, mcl = g.edges[u][i]
        lmap = list(w.alive)
        rc = 0
        if ev['c']:
            if ev['c'] > len(lmap):
                if drift is None:
                    drift = {'tid': tid, 'step': steps, 'ev': ev, 'diff': [('noconn', ev['c'], len(lmap))], 'st': g.states[u]['st']}
                continue
            rc = lmap[ev['c'] - 1]
        e = dict(ev)
        e['c'] = rc
        if drift is not None and ev['k'] == 'tick':
            # drifted: let whatever the real agent has due fire first, as the reactor would
            n = 0
            while w.due_calls() and n < 8:
                rec.step({'k': 'firedue', 'c': 0}, 0)
                n += 1
                steps += 1
        if not w.can(e):
            if drift is None:
                drift = {'tid': tid, 'step': steps, 'ev': ev, 'diff': [('disabled', ev['k'], ev.get('t') or ev.get('c'))],
                         'st': g.states[u]['st']}
            continue
        o = rec.step(ev, rc)
        steps += 1
        if drift is None:
            covered.append((u, i))
            if v in g.states:
                # outputs are compared against connector indexes valid before closed ones are dropped
                post_lmap = lmap + [x for x in w.alive if x not in lmap]
                diff = compare(g.states[v], o, list(w.alive)) + compare_out(mout, mrep, o, post_lmap)
                if matt != o['attempts']:
                    diff.append(('attempts', matt, o['attempts']))
                if [post_lmap[x - 1] for x in mcl if x <= len(post_lmap)] != o['closes']:
                    diff.append(('closes', mcl, o['closes']))
                if diff:
                    drift = {'tid': tid, 'step': steps, 'ev': ev, 'diff': diff[:4], 'st': g.states[u]['st']}
    if coop and rec.lines and w.p.fsm.allow_automatic_start and W.connectors:
        coop_continue(w, rec, cfgline.get('idle', 2), cfgline.get('hold', 60))
    if drift is not None:
        drift['events'] = [{k: ln.get(k) for k in ('k', 'c', 'm', 'h', 't')} for ln in rec.lines if ln.get('k') != 'cfg']
    return rec.lines, drift, steps, covered


def coop_continue(w, rec, idle_ticks, hold_s, slack=1):
    """C02: from whatever state the adversarial prefix left, behave as a cooperative environment and peer (mirror of
    spec/Coop.tla, CoopStep) for one idle-hold period + slack + three hold times of virtual time."""
    rec.step({'k': 'coop', 'c': 0}, 0)
    t0 = w.nticks
    watch = int(3 * max(hold_s, 30) / w.tick) + 1
    kad = False
    guard = 0
    while w.nticks - t0 <= idle_ticks + slack + watch and guard < 4000:
        guard += 1
        f = w.p.fsm
        conns = [(i, W.connectors[i - 1]) for i in w.alive]
        closing = [i for i, k in conns if k.state == 'connected' and k.transport.disconnecting]
        connecting = [i for i, k in conns if k.state == 'connecting']
        st = rec.pre['st']
        tr = rec.pre['tr']
        trk = W.connectors[tr - 1] if tr and tr > 0 else None
        tropen = trk is not None and trk.state == 'connected' and not trk.transport.disconnecting
        if w.due_calls():
            rec.step({'k': 'firedue', 'c': 0}, 0)
        elif closing:
            rec.step({'k': 'connLost', 'c': closing[0]}, closing[0])
        elif connecting:
            # (an attempt without the TCP-MD5 option cannot succeed with a peer that requires it: the attempt fails)
            rec.step({'k': 'connOk' if w.signed(connecting[0]) else 'connRefused', 'c': connecting[0]}, connecting[0])
        elif tropen and st == 'OPENSENT':
            # (the cooperative peer may be a replacement router: another BGP identifier than in the history so far)
            rec.step({'k': 'msg', 'c': tr, 'm': 'OPEN', 'h': 90, 'id': 0x0a00004d}, tr)
        elif tropen and st in ('OPENCONFIRM', 'ESTABLISHED') and not kad:
            rec.step({'k': 'msg', 'c': tr, 'm': 'KA'}, tr)
            kad = True
        else:
            if any(k.state == 'connecting' and k.deadline <= W.now + 1e-6 for i, k in conns):
                break
            rec.step({'k': 'tick', 'c': 0}, 0)
            kad = False


def enabled_events(w):
    """Environment events possible in the real world right now (small alphabet, for drift continuations)."""
    evs = []
    due = w.due_calls()
    if due:
        evs.append({'k': 'firedue', 'c': 0})
    else:
        evs.append({'k': 'tick', 'c': 0})
    for idx in w.alive:
        k = W.connectors[idx - 1]
        if k.state == 'connecting':
            evs.append({'k': 'connOk', 'c': idx})
            evs.append({'k': 'connRefused', 'c': idx})
        elif k.state == 'connected':
            evs.append({'k': 'connLost', 'c': idx})
            if not k.transport.disconnecting:
                for m, h in (('OPEN', 90), ('KA', 0), ('UPD', 0), ('BADTYPE', 0)):
                    evs.append({'k': 'msg', 'c': idx, 'm': m, 'h': h, 't': ''})
    evs.append({'k': 'stop', 'c': 0})
    evs.append({'k': 'start', 'c': 0})
    return evs


def explore_from(prefix, wcfg, cfgline, tid0, depth=3, cap=60):
    """Drift continuation (DESIGN.md 2.3): from the point where model and code disagreed, run every sequence of
    enabled environment events up to `depth` on the real agent (re-executed from boot), recording every trace.
    Breadth first, at most `cap` executions."""
    out = []
    frontier = [[]]
    n = 0
    for d in range(depth):
        nxt = []
        for cont in frontier:
            w = World(wcfg)
            rec = Recorder(w, tid0 + n, cfgline)
            ok = True
            for e in prefix + cont:
                e = {k: v for k, v in e.items() if v is not None}
                if not w.can(e):
                    ok = False
                    break
                rec.step(e, e.get('c', 0))
            if not ok:
                continue
            evs = enabled_events(w)
            # execute each one-step extension in a fresh world only at the next level; record this level's last step
            for e in evs:
                nxt.append(cont + [e])
            if cont:
                out.append(rec.lines)
                n += 1
                if n >= cap:
                    return out
        frontier = nxt
    for cont in frontier:
        if n >= cap:
            break
        w = World(wcfg)
        rec = Recorder(w, tid0 + n, cfgline)
        for e in prefix + cont:
            e = {k: v for k, v in e.items() if v is not None}
            if not w.can(e):
                break
            rec.step(e, e.get('c', 0))
        out.append(rec.lines)
        n += 1
    return out


def dumps(line):
    return json.dumps(line, separators=(',', ':'))
