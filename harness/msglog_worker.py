"""Worker side of C20: replay behaviours of spec/MsgLog.tla on the REAL yabgp DefaultHandler in a scratch
directory (outside /repo and /verif, removed afterwards) and parse the message directory after every step."""
import os
import re
import json
import shutil
import tempfile
import world
from world import World, W, CONF
from yabgp.handler.default_handler import DefaultHandler

PEER = '10.0.0.2'
KEYS = {'t', 'seq', 'type', 'msg'}


class FakeFactory(object):
    peer_addr = PEER


class FakePeer(object):
    factory = FakeFactory()

    def __init__(self):
        self.msg_recv_stat = {'Keepalives': 2}


def set_peer(addr):
    """run this worker process with another configured peer address (e.g. an IPv6 address spelled in upper case)"""
    global PEER
    PEER = addr
    FakeFactory.peer_addr = addr
    world.PEER = addr


PLAIN = ['open_received', 'keepalive_received', 'notification_received', 'route_refresh_received',
         'on_connection_lost', 'on_connection_failed', 'send_open', 'on_update_error']
_CONF_READY = False


def conf_ready():
    """One World with the default handler sets up CONF the way the agent does; later only write_dir changes."""
    global _CONF_READY
    if not _CONF_READY:
        d = tempfile.mkdtemp(prefix='vlog0_')
        try:
            World({'handler': 'default', 'write_dir': d, 'write_keepalive': True})
        finally:
            shutil.rmtree(d, ignore_errors=True)
        _CONF_READY = True


class LogRun(object):
    def __init__(self, root):
        conf_ready()
        self.root = root
        CONF.set_override('write_dir', root, group='message')
        CONF.set_override('write_keepalive', True, group='message')
        self.h = None
        self.peer = FakePeer()
        self.nplain = 0
        self.exc = 0
        self.refused = False
        self.msgdir = os.path.join(root, PEER.lower(), 'msg')
        self.huge = False
        self.fine_clock = False
        self.nclock = 0
        self.io_fault = False
        self.wd_in_error = False

    def peer_dir(self):
        return os.path.basename(os.path.dirname(self.msgdir))

    # ------------------------------------------------------------ actions
    def restart(self):
        self.h = None
        world.yconfig.get_bgp_config()        # oslo drops the running_config attribute whenever an override is set
        h = DefaultHandler()
        try:
            h.init()
            self.h = h
        except SystemExit:
            self.refused = True
        except Exception:
            self.exc += 1

    def _call(self, kind, rot):
        h, p = self.h, self.peer
        # the wall clock: whole seconds in most histories; in every fifth one it moves in uneven steps that put events
        # (and with them the creation of files) at the very end and the very beginning of a second
        if self.fine_clock:
            W.now += (0.2, 0.2999997, 0.0000002, 0.0000001, 0.5, 0.4999998, 1.0)[self.nclock % 7]
            self.nclock += 1
        else:
            W.now += 1.0
        ts = 1.7e9 + W.now
        CONF.set_override('write_msg_max_size', 1 if rot else 10 ** 12, group='message')
        if kind == 'update':
            # every fourth history logs UPDATEs as large as a 4096-octet message can be (about 1000 prefixes: a record of ~16 KB)
            nlri = ['10.1.1.0/24'] if not self.huge else ['%d.%d.%d.0/24' % (11 + i // 65536, (i // 256) % 256, i % 256) for i in range(1000)]
            h.update_received(p, ts, {'attr': {1: 0, 2: [[2, [65002]]], 3: '10.0.0.2'}, 'nlri': nlri, 'withdraw': [], 'afi_safi': 'ipv4'})
        elif kind == 'odd':
            # what _update_received hands over for an MP_REACH of an address family yabgp does not decode: raw octets
            h.update_received(p, ts, {'attr': {14: {'afi_safi': [25, 70], 'nexthop': b'\x0a\x00\x00\x02', 'nlri': b'\x00\x01\x02'}}, 'nlri': [], 'withdraw': [], 'afi_safi': None})
        else:
            name = PLAIN[self.nplain % len(PLAIN)]
            self.nplain += 1
            if name == 'open_received':
                h.open_received(p, ts, {'version': 4, 'asn': 65002, 'hold_time': 90, 'bgp_id': '10.0.0.2', 'capabilities': {'four_bytes_as': True}})
            elif name == 'keepalive_received':
                h.keepalive_received(p, ts)
            elif name == 'notification_received':
                h.notification_received(p, {'error': 'Cease', 'sub_error': None, 'data': "b''"})
            elif name == 'route_refresh_received':
                h.route_refresh_received(p, {'afi': 1, 'res': 0, 'safi': 1}, 5)
            elif name == 'on_connection_lost':
                h.on_connection_lost(p)
            elif name == 'on_connection_failed':
                h.on_connection_failed(PEER, 'refused')
            elif name == 'send_open':
                h.send_open(p, ts, {'version': 4, 'asn': 65001, 'hold_time': 180, 'bgp_id': '10.0.0.1', 'capabilities': {}})
            elif name == 'on_update_error':
                # (a malformed UPDATE as _update_received reports it: what could be decoded - here its withdrawn routes - and the octets)
                h.on_update_error(p, ts, {'attr': {}, 'nlri': [], 'withdraw': ['10.9.0.0/16', '10.8.0.0/16'] if self.wd_in_error else [], 'sub_error': 6,
                                          'hex': "b'\\x00'"})

    def event(self, kind, rot):
        self.nevent = getattr(self, 'nevent', 0) + 1
        fault = self.io_fault and self.nevent in (2, 3, 5) and not rot      # (a rotating event would skip its rotation: the model has no such step)
        real_fsync = os.fsync
        if fault:
            # a transient I/O error of the disk while this one event is written (the data reached the file, fsync reports EIO):
            # the error may surface in the callback, the log on disk stays what the property says
            def failing(fd):
                os.fsync = real_fsync
                raise OSError(5, 'Input/output error')
            os.fsync = failing
        try:
            self._call(kind, rot)
        except OSError:
            if not fault:
                self.exc += 1
        except Exception:
            self.exc += 1
        finally:
            os.fsync = real_fsync

    def sizes(self):
        out = {}
        if os.path.isdir(self.msgdir):
            for f in os.listdir(self.msgdir):
                out[f] = os.path.getsize(os.path.join(self.msgdir, f))
        return out

    def crash(self, cut, frac):
        """The process dies while writing one more event: the event is performed, then everything it wrote is cut
        back to a prefix (frac in [0,1) picks the octet offset for cut='torn') and the handler object is dropped."""
        before = self.sizes()
        try:
            self._call('plain', False)
        except Exception:
            self.exc += 1
        after = self.sizes()
        wrote = 0
        for f, sz in after.items():
            b = before.get(f, 0)
            if sz > b:
                wrote = sz - b
                if cut == 'nothing':
                    keep = 0
                elif cut == 'all':
                    keep = wrote
                elif cut == 'nonl':
                    keep = wrote - 1
                else:
                    keep = 1 + int(frac * (wrote - 2)) if wrote > 2 else 1
                with open(os.path.join(self.msgdir, f), 'r+b') as fh:
                    fh.truncate(b + keep)
        try:
            _, fobj = self.h.peer_files.get(PEER.lower(), (None, None))
            if fobj is not None:
                fobj.close()
        except Exception:
            pass
        self.h = None
        return wrote

    def stop(self):
        try:
            _, fobj = self.h.peer_files.get(PEER.lower(), (None, None))
            if fobj is not None:
                fobj.close()
        except Exception:
            pass
        self.h = None

    # ------------------------------------------------------------ observation
    def parse(self):
        """-> (disk = [[{ps:[{seq,full}], nl}]], number of complete records lacking a documented key)"""
        disk, badkeys = [], 0
        if not os.path.isdir(self.msgdir):
            return disk, badkeys
        dec = json.JSONDecoder()
        for f in sorted(os.listdir(self.msgdir)):
            with open(os.path.join(self.msgdir, f), 'rb') as fh:
                data = fh.read().decode('utf-8', 'replace')
            lines = []
            parts = data.split('\n')
            for j, txt in enumerate(parts):
                last = j == len(parts) - 1
                if last and txt == '':
                    continue
                ps = []
                rest = txt
                while rest:
                    try:
                        obj, end = dec.raw_decode(rest)
                        if isinstance(obj, dict) and 'seq' in obj:
                            ps.append({'seq': int(obj['seq']), 'full': True})
                            if not KEYS <= set(obj):
                                badkeys += 1
                        else:
                            ps.append({'seq': 0, 'full': False})
                        rest = rest[end:]
                    except ValueError:
                        m = re.search(r'"seq": (\d+)[,}]', rest)
                        ps.append({'seq': int(m.group(1)) if m else 0, 'full': False})
                        rest = ''
                if not ps:
                    ps = [{'seq': 0, 'full': False}]          # an empty line: not a record
                lines.append({'ps': ps, 'nl': not last})
            disk.append(lines)
        return disk, badkeys


def replay_walk(g, walk, tid, frac):
    """-> (trace lines, drift or None, steps)"""
    root = tempfile.mkdtemp(prefix='vlog_')
    try:
        W.now = 0.0
        # the configured directory is a path like any other: in every seventh history its name has blanks and the characters
        # that mean something to shells and glob patterns
        sub = root
        if tid % 7 == 3:
            sub = os.path.join(root, 'bgp[lab]-[1] x*?{a,b}')
            os.makedirs(sub)
        r = LogRun(sub)
        r.huge = (tid % 4 == 1)
        # the state a first start leaves when it is killed inside its directory set-up: the directory of the peer exists,
        # without (every sixth history) or with an empty (every sixth) msg/ directory
        if tid % 6 == 3:
            os.makedirs(os.path.join(sub, r.peer_dir()))
        elif tid % 6 == 5:
            os.makedirs(os.path.join(sub, r.peer_dir(), 'msg'))
        r.io_fault = (tid % 9 == 4)
        r.nplain = tid % len(PLAIN)          # histories start at different callbacks: every one is reached within the bounds
        r.wd_in_error = (tid % 2 == 0)
        r.fine_clock = (tid % 5 == 2)
        if r.fine_clock:
            W.now = 0.5
        lines = [{'tid': tid, 'i': 0, 'k': 'begin', 'kind': '', 'cut': ''}]
        drift = None
        i = 0
        for (u, idx) in walk:
            ev, obs, _, v = g.edges[u][idx][:4]
            k = ev['k']
            if k == 'restart':
                if r.h is not None or r.refused:
                    continue
                r.restart()
            elif k == 'event':
                if r.h is None:
                    continue
                r.event(ev['kind'], ev['cut'] == 'rotate')
            elif k == 'crash':
                if r.h is None:
                    continue
                r.crash(ev['cut'], frac)
            elif k == 'stop':
                if r.h is None:
                    continue
                r.stop()
            i += 1
            disk, badkeys = r.parse()
            lines.append({'tid': tid, 'i': i, 'k': k, 'kind': ev['kind'], 'cut': ev['cut'], 'disk': disk, 'running': r.h is not None,
                          'refused': r.refused, 'badkeys': badkeys, 'exc': r.exc,
                          'files': sorted(os.listdir(r.msgdir)) if os.path.isdir(r.msgdir) else []})
            if drift is None:
                md = obs['disk']
                norm = [[{'ps': [{'seq': p['seq'], 'full': p['full']} for p in ln['ps']], 'nl': ln['nl']} for ln in f] for f in md]
                real = [[{'ps': [{'seq': p['seq'], 'full': p['full']} for p in ln['ps']], 'nl': ln['nl']} for ln in f] for f in disk]
                # a torn piece too short to show its number is reported as 0
                def same(a, b):
                    if len(a) != len(b):
                        return False
                    for fa, fb in zip(a, b):
                        if len(fa) != len(fb):
                            return False
                        for la, lb in zip(fa, fb):
                            if la['nl'] != lb['nl'] or len(la['ps']) != len(lb['ps']):
                                return False
                            for pa, pb in zip(la['ps'], lb['ps']):
                                if pa['full'] != pb['full'] or (pa['seq'] != pb['seq'] and not (not pb['full'] and pb['seq'] == 0)):
                                    return False
                    return True
                if not same(norm, real) or obs['refused'] != r.refused or obs['running'] != (r.h is not None):
                    drift = {'tid': tid, 'step': i, 'ev': ev, 'model': md, 'real': disk, 'refused': r.refused}
        return lines, drift, i
    finally:
        shutil.rmtree(root, ignore_errors=True)
