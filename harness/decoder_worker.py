"""Worker side of C11: run the real yabgp decoders on given inputs under the deterministic work meter."""
import os
import sys
import json
import struct

REPO = os.environ.get('VERIF_REPO', '/repo')
if REPO not in sys.path:
    sys.path.insert(0, REPO)
import logging                                   # noqa: E402
logging.disable(logging.CRITICAL)
import meter                                     # noqa: E402
from yabgp.message.update import Update          # noqa: E402
from yabgp.message.open import Open              # noqa: E402
from yabgp.message.notification import Notification   # noqa: E402
from yabgp.message.keepalive import KeepAlive    # noqa: E402
from yabgp.message.route_refresh import RouteRefresh  # noqa: E402
from yabgp.message.attribute.linkstate.linkstate import LinkState   # noqa: E402
from yabgp.message.attribute.sr.bgpprefixsid import BGPPrefixSID    # noqa: E402
from yabgp.message.attribute.nlri.linkstate import BGPLS            # noqa: E402
from yabgp.message.attribute.mpreachnlri import MpReachNLRI         # noqa: E402
from yabgp.message.attribute.mpunreachnlri import MpUnReachNLRI     # noqa: E402
from yabgp.message.attribute.nlri.ipv6_unicast import IPv6Unicast   # noqa: E402
from yabgp.message.attribute.nlri.ipv4_mpls_vpn import IPv4MPLSVPN   # noqa: E402
from yabgp.message.attribute.nlri.ipv6_mpls_vpn import IPv6MPLSVPN   # noqa: E402
from yabgp.message.attribute.nlri.ipv4_unicast import IPv4Unicast    # noqa: E402
from yabgp.message.attribute.nlri.labeled_unicast.ipv4 import IPv4LabeledUnicast  # noqa: E402
from yabgp.message.attribute.nlri.labeled_unicast.ipv6 import IPv6LabeledUnicast  # noqa: E402
from yabgp.message.attribute.nlri.evpn import EVPN                  # noqa: E402
from yabgp.message.attribute.nlri.ipv4_flowspec import IPv4FlowSpec  # noqa: E402
from yabgp.message.attribute.aspath import ASPath                   # noqa: E402
from yabgp.message.attribute.community import Community             # noqa: E402
from yabgp.message.attribute.extcommunity import ExtCommunity       # noqa: E402
from yabgp.message.attribute.largecommunity import LargeCommunity   # noqa: E402
from yabgp.message.attribute.clusterlist import ClusterList         # noqa: E402
from yabgp.message.attribute.pmsitunnel import PMSITunnel           # noqa: E402
from yabgp.message.attribute.aggregator import Aggregator           # noqa: E402
from yabgp.message.attribute.origin import Origin                   # noqa: E402
from yabgp.message.attribute.nexthop import NextHop                 # noqa: E402
from yabgp.message.attribute.med import MED                         # noqa: E402
from yabgp.message.attribute.localpref import LocalPreference       # noqa: E402
from yabgp.message.attribute.originatorid import OriginatorID       # noqa: E402
from yabgp.message.attribute.atomicaggregate import AtomicAggregate  # noqa: E402

BUDGET = 300000
TOP = {
    'Update.parse': lambda b: Update.parse(0, b, True, None),
    'Update.parse/as2': lambda b: Update.parse(0, b, False, None),
    'Update.parse/addpath': lambda b: Update.parse(0, b, True, {'ipv4': True, 'ipv6': True, 'vpnv4': True}),
    'Open.parse': lambda b: Open().parse(b),
    'Notification.parse': lambda b: Notification.parse(b),
    'RouteRefresh.parse': lambda b: RouteRefresh().parse(b),
    'KeepAlive.parse': lambda b: KeepAlive.parse(b),
    'LinkState.unpack': lambda b: LinkState.unpack(b, bgpls_pro_id=2),
    'BGPPrefixSID.unpack': lambda b: BGPPrefixSID.unpack(b),
    'BGPLS.parse': lambda b: BGPLS.parse(b),
    'MpReachNLRI.parse': lambda b: MpReachNLRI.parse(b),
    'MpUnReachNLRI.parse': lambda b: MpUnReachNLRI.parse(b),
}
SUB = {
    'Update.parse_attributes': lambda b: Update.parse_attributes(b, True),
    'Update.parse_prefix_list': lambda b: Update.parse_prefix_list(b),
    'IPv6Unicast.parse': lambda b: IPv6Unicast.parse(b),
    'IPv4MPLSVPN.parse': lambda b: IPv4MPLSVPN.parse(b),
    'IPv6MPLSVPN.parse': lambda b: IPv6MPLSVPN.parse(b),
    'IPv4LabeledUnicast.parse': lambda b: IPv4LabeledUnicast.parse(b),
    'IPv6LabeledUnicast.parse': lambda b: IPv6LabeledUnicast.parse(b),
    'EVPN.parse': lambda b: EVPN.parse(b),
    'IPv4FlowSpec.parse': lambda b: IPv4FlowSpec.parse(b),
    'ASPath.parse': lambda b: ASPath.parse(b, asn4=True),
    'ASPath.parse/as2': lambda b: ASPath.parse(b, asn4=False),
    'Community.parse': lambda b: Community.parse(b),
    'ExtCommunity.parse': lambda b: ExtCommunity.parse(b),
    'LargeCommunity.parse': lambda b: LargeCommunity.parse(b),
    'ClusterList.parse': lambda b: ClusterList.parse(b),
    'PMSITunnel.parse': lambda b: PMSITunnel.parse(b),
    'Aggregator.parse': lambda b: Aggregator.parse(b, asn4=True),
    'Origin.parse': lambda b: Origin.parse(b),
    'NextHop.parse': lambda b: NextHop.parse(b),
    'MED.parse': lambda b: MED.parse(b),
    'LocalPreference.parse': lambda b: LocalPreference.parse(b),
    'OriginatorID.parse': lambda b: OriginatorID.parse(b),
    'AtomicAggregate.parse': lambda b: AtomicAggregate.parse(b),
}
ALL = dict(TOP)
ALL.update(SUB)


def registered():
    return {'ls': sorted(LinkState.registered_tlvs.keys()), 'sid': sorted(getattr(BGPPrefixSID, 'registered_tlvs', {}).keys())}


def inrange(b):
    if len(b) < 4:
        return False
    wl = struct.unpack('!H', b[:2])[0]
    if len(b) < wl + 4:
        return False
    al = struct.unpack('!H', b[wl + 2:wl + 4])[0]
    return len(b) >= wl + 4 + al


def call(ident, ep, b, cls):
    M = meter.meter()
    f = ALL[ep]
    err = ''
    raised = False
    isdict = False

    def run():
        return f(b)
    try:
        r, work, over = M.run(run, budget=BUDGET)
        isdict = isinstance(r, dict)
    except Exception as e:
        raised = True
        work, over = M.count, False
        err = repr(e)[:120]
    upd = ep.startswith('Update.parse') and ep.split('/')[0] == 'Update.parse'
    return {'id': ident, 'ep': ep, 'cls': cls, 'n': len(b), 'work': work, 'over': bool(over), 'raised': raised, 'upd': upd,
            'inrange': bool(upd and inrange(b)), 'isdict': isdict, 'err': err}


def work(args):
    k, jobs, outdir = args
    path = os.path.join(outdir, 'dec_%04d.ndjson' % k)
    n = 0
    cur = os.path.join(outdir, 'cur_%04d.json' % k)
    cfd = os.open(cur, os.O_WRONLY | os.O_CREAT, 0o600)
    with open(path, 'w') as fh:
        for ident, ep, hexs, cls in jobs:
            b = bytes.fromhex(hexs)
            eps = [ep] if ep != '*' and ep != 'top' else (list(ALL) if ep == '*' else list(TOP))
            for j, e in enumerate(eps):
                # what is being called right now (the executed-lines meter cannot stop a call that is stuck inside C code -
                # a regular expression, a big-number conversion; the parent watches this file's age and kills the worker)
                rec = json.dumps({'id': ident * 64 + j, 'ep': e, 'cls': cls, 'n': len(b), 'hex': hexs[:400]}).encode()
                os.pwrite(cfd, rec.ljust(700), 0)
                line = call(ident * 64 + j, e, b, cls)
                # keep the input only where something is wrong (the file stays small)
                if line['over'] or (line['upd'] and line['inrange'] and (line['raised'] or not line['isdict'])) or line['work'] > 4000 + 80 * len(b):
                    line['hex'] = hexs[:400]
                fh.write(json.dumps(line, separators=(',', ':')) + '\n')
                n += 1
    try:
        os.close(cfd)
        os.remove(cur)
    except OSError:
        pass
    return path, n
