"""C04: byte-stream framing independent of TCP segmentation (DESIGN.md 3.2, 5 C04)."""
import os
import sys
import json
import random
import shutil
import tempfile
import multiprocessing as mp

HERE = os.path.dirname(os.path.abspath(__file__))
sys.path.insert(0, HERE)
import tlc            # noqa: E402
import common         # noqa: E402
from session import tla_val   # noqa: E402

PROP = 'C04'
SHAPES = ["KA", "UPD0", "UPD1", "RR", "RR128", "NOTIF", "OPEN", "BADM1", "BADM9", "BADM16", "LEN0", "LEN18", "LEN20",
          "LEN4097", "LEN65535", "TYPE0", "TYPE6", "TYPE255", "OPENSHORT"]
TAILS = ["NONE", "TRUNC10", "TRUNC18", "TRUNCUPD"]
ASSUME = ['the session is Established with hold time 0 when the stream starts (no timers interfere)',
          'environment model T1-T6 of DESIGN.md section 7', 'TLC/SANY, CommunityModules Json/IOUtils',
          'work is measured in executed yabgp source lines (sys.monitoring), not seconds']
MARK = b'\xff' * 16


def model_cfg(maxshapes, guard=True, extra=''):
    return ('CONSTANTS SHAPES = %s\n TAILS = %s\n MAXSHAPES = %d\n LOOPGUARD = %s\nINIT Init\nNEXT Next\nINVARIANT Inv\n'
            'CHECK_DEADLOCK FALSE\n%s' % (tla_val(SHAPES), tla_val(TAILS), maxshapes, 'TRUE' if guard else 'FALSE', extra))


def spec_stage(maxshapes):
    st, text = tlc.run('Framing', model_cfg(maxshapes, True, 'INVARIANT DumpStream\n'), timeout=3000)
    if not st.get('completed'):
        raise tlc.TlcError('Framing model did not complete: %s' % text[-2000:])
    streams = [(tuple(d['names']), bytes(d['bytes'])) for d in tlc.printed(text, 'F')]
    cands = list(tlc.printed(text, 'V'))
    return st, streams, cands


# ----------------------------------------------------------------------------- segmentations
def interesting(data):
    """offsets around header fields and message boundaries"""
    offs = set()
    pos = 0
    while pos < len(data):
        for d in (1, 15, 16, 17, 18, 19, 20):
            offs.add(pos + d)
        if len(data) - pos < 19:
            break
        ln = data[pos + 16] * 256 + data[pos + 17]
        if ln < 19 or ln > 4096:
            break
        offs.update((pos + ln - 1, pos + ln, pos + ln + 1))
        pos += ln
    return sorted(o for o in offs if 0 < o < len(data))


def plans_for(data, tier, rnd, nshapes):
    n = len(data)
    plans = [('whole', [])]
    if n <= 1:
        return plans
    plans.append(('bytewise', list(range(1, n))))
    ones = range(1, n) if (tier == 'thorough' or nshapes <= 1) else interesting(data)
    for c in ones:
        plans.append(('1cut', [c]))
    if tier == 'thorough' and n <= 48:
        for a in range(1, n):
            for b in range(a + 1, n):
                plans.append(('2cut', [a, b]))
    else:
        ints = interesting(data)
        k = 6 if tier == 'quick' else 40
        for _ in range(k):
            a, b = sorted(rnd.sample(range(1, n), 2)) if n > 2 else (1, 1)
            plans.append(('2cut', [a, b]))
        for _ in range(k // 2):
            if len(ints) >= 2:
                plans.append(('2cut', sorted(rnd.sample(ints, 2))))
    for _ in range(2 if tier == 'quick' else 10):
        m = rnd.randint(3, min(12, n - 1)) if n > 4 else 1
        plans.append(('random', sorted(rnd.sample(range(1, n), min(m, n - 1)))))
    return plans


def sweep_streams(tier):
    """every length-field value 0..65535 and every type octet (DESIGN.md 5 C04)"""
    out = []
    full = set(list(range(0, 64)) + [2 ** k + d for k in range(6, 13) for d in (-1, 0, 1)] + [4095, 4096, 4097, 1000, 2047, 3000])
    for L in range(65536):
        hdr = MARK + bytes([L >> 8, L & 255, 4])
        if 19 < L <= 4096 and (L in full or (tier == 'thorough' and L % 37 == 0)):
            out.append((('LEN=%d' % L, 'full'), hdr + b'\x00' * (L - 19)))
        else:
            out.append((('LEN=%d' % L, 'hdr'), hdr))
    # oversize messages whose announced octets really follow (an UPDATE-typed and a KEEPALIVE-typed one), then a KEEPALIVE
    for L in [4097, 4098, 4101, 4115, 4200, 5000, 8192, 65535] + ([4099, 4100, 4500, 6000, 16384, 32768, 65534] if tier == 'thorough' else []):
        for typ in (2, 4):
            body = (b'\x00\x00\x00\x00' + b'\x00' * (L - 23)) if typ == 2 else b'\x00' * (L - 19)
            out.append((('BIGLEN=%d' % L, 'T%d' % typ, 'full+KA'), MARK + bytes([L >> 8, L & 255, typ]) + body + MARK + b'\x00\x13\x04'))
    # type-specific minimum lengths (RFC 4271 6.1): every known type with every total length from 19 up to and just past
    # its minimum, body present, followed by a KEEPALIVE
    bodies = {1: bytes([4, 0xfd, 0xea, 0, 90, 10, 0, 0, 2, 0]), 2: b'\x00\x00\x00\x00', 3: b'\x06\x02', 4: b'', 5: b'\x00\x01\x00\x01', 128: b'\x00\x01\x00\x01'}
    for typ, full in bodies.items():
        for L in range(19, 19 + len(full) + (1 if typ in (1, 4) else 3)):
            body = (full + b'\x00' * 4)[:L - 19] if typ != 1 else full[:L - 19]
            if typ == 1 and L - 19 > len(full):
                continue
            out.append((('MINLEN', 'T%d' % typ, 'L%d' % L, 'KA'), MARK + bytes([L >> 8, L & 255, typ]) + body + MARK + b'\x00\x13\x04'))
    # very many complete messages delivered at once (a peer that catches up after a pause: a 22 KB socket read)
    upd0 = MARK + b'\x00\x17\x02\x00\x00\x00\x00'
    for name, unit, cnt in [('KA', MARK + b'\x00\x13\x04', 1200), ('UPD0', upd0, 1100)] + ([('KA', MARK + b'\x00\x13\x04', 3000)] if tier == 'thorough' else []):
        out.append((('MANY=%d' % cnt, name), unit * cnt))
    # a header of every known type whose length field covers one or two complete, valid messages that follow it (the body
    # then LOOKS like messages: marker, length, type), and a KEEPALIVE after that
    ka = MARK + b'\x00\x13\x04'
    eor = MARK + b'\x00\x17\x02\x00\x00\x00\x00'
    for typ in (1, 2, 3, 4, 5, 128):
        for nm, inner in (('KA', ka), ('KA+KA', ka + ka), ('EOR', eor), ('KA+EOR', ka + eor)):
            L = 19 + len(inner)
            out.append((('COVER', 'T%d' % typ, nm, 'KA'), MARK + bytes([L >> 8, L & 255, typ]) + inner + ka))
    # headers with two faults at once: the checks come in the order marker, length, type (RFC 4271 6.1)
    badmarks = [b'\x00' + b'\xff' * 15, b'\xff' * 15 + b'\xfe', b'\xff' * 7 + b'\x7f' + b'\xff' * 8, b'\x00' * 16]
    for mi, bm in enumerate(badmarks):
        for L in (0, 18, 4097, 65535, 19):
            for typ in (4, 2, 6, 255):
                out.append((('DOUBLE', 'M%d' % mi, 'L%d' % L, 'T%d' % typ), bm + bytes([L >> 8, L & 255, typ])))
    for L in (0, 1, 18, 4097, 5000, 65535):
        for typ in (0, 6, 7, 99, 127, 129, 255):
            out.append((('DOUBLE', 'Mok', 'L%d' % L, 'T%d' % typ), MARK + bytes([L >> 8, L & 255, typ])))
    for t in range(256):
        out.append((('TYPE=%d' % t,), MARK + b'\x00\x13' + bytes([t])))
        out.append((('TYPE=%d+KA' % t,), MARK + b'\x00\x13' + bytes([t]) + MARK + b'\x00\x13\x04'))
    return out


# ----------------------------------------------------------------------------- workers
def _work(args):
    k, jobs, outdir, tier, seed = args
    import framing_worker as F
    rnd = random.Random(seed * 1000003 + k)
    path = os.path.join(outdir, 'part_%04d.ndjson' % k)
    nruns = nchunks = 0
    kinds = {}
    with open(path, 'w') as fh:
        for tid0, names, data, sweep in jobs:
            shape = '+'.join(names)
            if names[0] == 'LONG':
                for ln in F.run_long(int(names[1]), names[2], tid0, seed):
                    fh.write(json.dumps(ln, separators=(',', ':')) + '\n')
                nruns += 1
                kinds['long-' + names[2]] = kinds.get('long-' + names[2], 0) + 1
                continue
            if sweep:
                plans = [('whole', [])] + ([('1cut', [17]), ('1cut', [18])] if len(data) >= 19 else [])
                if names[0] in ('MINLEN', 'COVER'):
                    plans += [('1cut', [19]), ('1cut', [len(data) - 19]), ('bytewise', list(range(1, len(data))))]
                if names[0].startswith('MANY'):
                    plans = [('whole', []), ('chunks1000', list(range(1000, len(data), 1000))), ('1cut', [len(data) // 2 + 7])]
                elif len(data) > 4096:
                    plans += [('1cut', [19]), ('1cut', [20]), ('1cut', [len(data) - 19]), ('1cut', [len(data) - 20]), ('2cut', [10, len(data) - 19])]
            else:
                plans = plans_for(data, tier, rnd, len(names) - 1)
            ref = None
            for j, (cutname, cuts) in enumerate(plans):
                lines, pays = F.run_one(data, cuts, tid0 + j, shape, cutname, ref)
                if ref is None:
                    ref = pays
                for ln in lines:
                    fh.write(json.dumps(ln, separators=(',', ':')) + '\n')
                nruns += 1
                nchunks += len(lines) - 1
                kinds[cutname] = kinds.get(cutname, 0) + 1
    return path, nruns, nchunks, kinds


def validate(ndjson):
    cfg = ('CONSTANTS SHAPES = {"KA"}\n TAILS = {"NONE"}\n MAXSHAPES = 1\n LOOPGUARD = TRUE\nINIT TInit\nNEXT TNext\n'
           'POSTCONDITION AllConsumed\nCHECK_DEADLOCK FALSE\n')
    st, text = tlc.run('TraceFraming', cfg, workers=1, timeout=7200, env={'TRACE_FILE': ndjson})
    n = sum(1 for _ in open(ndjson))
    if st.get('distinct') != n + 1:
        raise tlc.TlcError('TraceFraming did not consume every line (%s of %d):\n%s' % (st.get('distinct'), n, text[-3000:]))
    return list(tlc.printed(text, 'R')), st


def run(prop, tier, seed):
    v = common.Verdict(PROP)
    work = tempfile.mkdtemp(prefix='vfram_')
    try:
        maxshapes = 2 if tier == 'quick' else 2
        mst, streams, cands = spec_stage(maxshapes)
        # vacuity: the defective loop variant must be rejected by the model-level invariant
        dst, dtext = tlc.run('Framing', model_cfg(2, False), timeout=3000)
        ndef = sum(1 for _ in tlc.printed(dtext, 'V'))
        if ndef == 0:
            common.machinery_failure('Framing.tla invariant is vacuous: the LOOPGUARD=FALSE variant was not rejected')
        rnd = random.Random(seed)
        if tier == 'quick':
            two = [s for s in streams if len(s[0]) == 3]
            one = [s for s in streams if len(s[0]) < 3]
            chosen = one + rnd.sample(two, min(len(two), 500))
        else:
            chosen = streams
        jobs = []
        tid = 0
        for names, data in chosen:
            jobs.append((tid, names, data, False))
            tid += 5000
        sw = sweep_streams(tier)
        for names, data in sw:
            jobs.append((tid, names, data, True))
            tid += 10
        # long runs of well-formed messages on one connection (tens of thousands of UPDATEs), three ways of cutting them
        for n in ([12000, 20011] if tier == 'quick' else [12000, 20011, 70000, 131075]):
            for seg in ('permsg', '64k', 'random'):
                jobs.insert(0, (tid, ('LONG', str(n), seg), None, True))
                tid += 10
        procs = 16
        chunks = [jobs[i::procs * 4] for i in range(procs * 4)]
        with mp.get_context('fork').Pool(procs) as pool:
            res = pool.map(_work, [(k, ch, work, tier, seed) for k, ch in enumerate(chunks) if ch])
        nd = os.path.join(work, 'all.ndjson')
        with open(nd, 'w') as out:
            for r in res:
                with open(r[0]) as fh:
                    shutil.copyfileobj(fh, out)
                os.remove(r[0])
        rej, vst = validate(nd)
        lines_by_tid = {}
        want = set(r['tid'] for r in rej[:200])
        if want:
            with open(nd) as fh:
                for line in fh:
                    d = json.loads(line)
                    if d['tid'] in want:
                        lines_by_tid.setdefault(d['tid'], []).append(d)
        for r in rej:
            sig = {'shape': r['pst'], 'cut': r['cls']}
            ls = lines_by_tid.get(r['tid'], [])
            payload = {'property': PROP, 'kind': 'framing', 'clause': r['clause'], 'signature': sig, 'extra': r['extra'],
                       'stream': ls[0].get('bytes') if ls else None,
                       'cuts': [x['avail'] for x in ls[1:] if 'avail' in x] if ls else None, 'lines': (ls[1:] or ls)[-4:]}
            v.reject(r['clause'], {'shape': r['pst']}, payload, 'cut=%s trace=%d line=%d extra=%s' % (r['cls'], r['tid'], r['i'], json.dumps(r['extra'])))
        # binding self-test: drop one extracted message from a recorded line -> must be rejected
        st_ok = None
        with open(nd) as fh:
            buf = []
            for line in fh:
                d = json.loads(line)
                if d['k'] == 'stream':
                    buf = [d]
                elif d['k'] == 'chunk':
                    buf.append(d)
                    if len(d['ext']) >= 2 and not d['nots']:
                        bad = dict(d)
                        bad['ext'] = d['ext'][:-1]
                        p = os.path.join(work, 'self.ndjson')
                        with open(p, 'w') as o2:
                            for x in buf[:-1] + [bad]:
                                o2.write(json.dumps(x) + '\n')
                        rj, _ = validate(p)
                        st_ok = any(x['clause'] == 'C04.ref' for x in rj)
                        break
        if not st_ok:
            common.machinery_failure('C04 binding self-test failed (corrupted trace accepted or no suitable line)')
        nruns = sum(r[1] for r in res)
        nchunks = sum(r[2] for r in res)
        kinds = {}
        for r in res:
            for k2, n2 in r[3].items():
                kinds[k2] = kinds.get(k2, 0) + n2
        with open(nd) as fh:
            sample = [json.loads(next(fh)) for _ in range(4)]
        cov = {'states': mst['distinct'], 'transitions': mst['generated'], 'traces_validated_against_impl': nruns,
               'samples': [{'what': 'one recorded run (stream + per-chunk observations of the real BGP.dataReceived)', 'lines': sample}],
               'model': {'streams': len(streams), 'maxshapes': maxshapes, 'shapes': SHAPES, 'tails': TAILS, 'stats': mst,
                         'candidates_on_model': len(cands), 'defective_variant_rejections': ndef},
               'replay': {'streams_replayed': len(chosen), 'sweep_streams': len(sw), 'runs': nruns, 'chunks_delivered': nchunks,
                          'segmentation_kinds': kinds, 'length_field_values': 65536, 'type_octets': 256},
               'lines_validated': vst.get('distinct', 1) - 1, 'rejected_lines': len(rej), 'binding_selftest': {'rejected_as_required': True},
               'exhaustive': False,
               'rule': 'model: every segmentation of every stream of <=MAXSHAPES shapes + tail (exhaustive in TLC); code: whole/bytewise/1-cut/2-cut/random '
                       'segmentations of those streams and the 0..65535 length and 0..255 type sweeps on the real protocol object, each chunk judged by RefSet'}
        rc = v.finish()
        common.write_evidence(PROP, tier, 'model_checking', cov, ASSUME, violations=len(v.violations))
        return rc
    finally:
        shutil.rmtree(work, ignore_errors=True)


def replay_file(prop, path):
    with open(path) as fh:
        p = json.load(fh)
    work = tempfile.mkdtemp(prefix='vfram_')
    try:
        code = ('import sys, json; sys.path.insert(0, %r); import framing_worker as F\n'
                'p = json.load(open(%r)); data = bytes(p["stream"]); ref = F.run_one(data, [], 0, "replay", "whole")[1]\n'
                'lines, _ = F.run_one(data, p["cuts"][:-1], 1, p["signature"]["shape"], "replay", ref)\n'
                'open(%r, "w").write("".join(json.dumps(l) + "\\n" for l in lines))\n') % (HERE, path, os.path.join(work, 'r.ndjson'))
        import subprocess
        subprocess.run([common.PY, '-c', code], check=True)
        rej, _ = validate(os.path.join(work, 'r.ndjson'))
        v = common.Verdict(PROP)
        for r in rej:
            v.reject(r['clause'], {'shape': r['pst']}, p, 'replayed')
        return v.finish()
    finally:
        shutil.rmtree(work, ignore_errors=True)
