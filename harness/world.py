"""The real yabgp agent on a virtual-time fake reactor (DESIGN.md section 2.5).

`World(cfg)` builds the agent the way `yabgp.agent.prepare_service` does (same CONF plumbing,
`prepare_twisted_service`, BGPPeering, handler, Flask app) and lets a driver apply environment events one at
a time.  After every event `observe()` returns (a) the externally observable effects of the step (bytes per
connection, connects, closes, handler callbacks, escaped exceptions, REST-visible state and statistics) and
(b) a projection of internal state that is only used to detect model/code drift, never for verdicts.

Must be imported in a process whose sys.path has /verif/harness/shim and the repository under test in front.
"""
import os
import sys
import json
import base64
import logging
import signal
import time as _time

HERE = os.path.dirname(os.path.abspath(__file__))
REPO = os.environ.get('VERIF_REPO', '/repo')
for _p in (REPO, os.path.join(HERE, 'shim'), HERE):
    if _p in sys.path:
        sys.path.remove(_p)
    sys.path.insert(0, _p)

logging.disable(logging.CRITICAL)
_real_time = _time.time
_stderr = sys.stderr
sys.stderr = open(os.devnull, 'w')      # yabgp.agent installs a DEBUG stderr handler at import
try:
    from oslo_config import cfg as _cfg
    from yabgp.api.app import app                      # must precede CONF(args=...)
    from yabgp import config as yconfig
    import yabgp.agent as yagent
    from yabgp.handler import BaseHandler
    from yabgp.handler.default_handler import DefaultHandler
    from yabgp.common import constants as C
    from yabgp.api import utils as api_utils
    from twisted.internet import reactor, error
finally:
    sys.stderr = _stderr
logging.getLogger().handlers[:] = []
logging.disable(logging.CRITICAL)

import wire  # noqa: E402

W = reactor.W
CONF = _cfg.CONF
PEER = '10.0.0.2'
LOCAL = '10.0.0.1'
OFF = 9999
EPS = 1e-6
_time.time = lambda: 1.7e9 + W.now          # yabgp stamps messages and file names with time.time()

DEFAULT_CFG = dict(tick=10.0, crt=20, hold=60, idle=20, las=65001, ras=65002, four_bytes_as=True,
                   caps=None, rib=False, handler='rec', write_dir=None, write_keepalive=False,
                   max_size_mb=500, afi_safi=['ipv4'], user='admin', password='admin', ka=None)


class Hang(BaseException):
    """A single callback ran longer than the wall-clock guard (used only as a hang guard)."""


def _alarm(signum, frame):
    raise Hang()


class Rec(BaseHandler):
    """Recording handler: every callback is logged with a compact payload."""

    def __init__(self):
        BaseHandler.__init__(self)
        self.log = []
        self.fail = {}
        self.ncalls = {}

    def init(self):
        pass


def _mk(name):
    def cb(self, *a, **k):
        payload = None
        if name in ('update_received', 'on_update_error'):
            m = a[2] if len(a) > 2 else k.get('msg')
            payload = m
        elif name == 'open_received':
            payload = a[2] if len(a) > 2 else k.get('result')
        elif name == 'notification_received':
            payload = a[1] if len(a) > 1 else k.get('msg')
        elif name == 'route_refresh_received':
            payload = [a[1] if len(a) > 1 else k.get('msg'), a[2] if len(a) > 2 else k.get('msg_type')]
        self.log.append((name, payload))
        # fault injection: the application's callback fails on chosen calls (a full disk, a bug in the handler)
        n = self.ncalls[name] = self.ncalls.get(name, 0) + 1
        if n in self.fail.get(name, ()):
            raise OSError(28, 'No space left on device')
    return cb


for _n in ['on_update_error', 'update_received', 'keepalive_received', 'open_received', 'send_open',
           'route_refresh_received', 'notification_received', 'on_connection_lost', 'on_connection_failed',
           'on_established']:
    setattr(Rec, _n, _mk(_n))
Rec.__abstractmethods__ = frozenset()


class World(object):
    TIMERS = {'cr': 'connect_retry_timer', 'hold': 'hold_timer', 'ka': 'keep_alive_timer',
              'idle': 'idle_hold_timer', 'delayopen': 'delay_open_timer'}

    def __init__(self, cfg=None, hang_guard=5.0):
        c = dict(DEFAULT_CFG)
        c.update(cfg or {})
        self.cfg = c
        self.tick = float(c['tick'])
        self.nticks = 0
        self.hang_guard = hang_guard
        W.reset()
        W.local_hosts = c.get('hosts')                 # what getHost() reports, per connection (C05)
        W.sockopt_fail = c.get('sockopt_fail')         # connections whose TCP-MD5 socket option call fails (C12)
        W.nodelay_fail = c.get('nodelay_fail')         # connections whose TCP_NODELAY socket option call fails (C12)
        args = ['--bgp-local_as=%d' % c['las'], '--bgp-remote_as=%d' % c['ras'],
                '--bgp-remote_addr=' + PEER, '--bgp-local_addr=' + c.get('local_addr', LOCAL),
                '--time-connect_retry_time=%d' % c['crt'], '--time-hold_time=%d' % c['hold'],
                '--time-idle_hold_time=%d' % c['idle'], '--time-bgp_peer_call_later_time=0',
                '--rest-username=' + c['user'], '--rest-password=' + c['password'],
                '--bgp-afi_safi=' + ','.join(c['afi_safi'])]
        if c.get('md5'):
            args.append('--bgp-md5=' + c['md5'])
        if c['ka'] is not None:
            args.append('--time-keep_alive_time=%d' % c['ka'])
        if c['rib']:
            args.append('--bgp-rib')
        CONF.clear_override('four_bytes_as', group='bgp')
        CONF(args=args, project='yabgp', default_config_files=[])
        CONF.set_override('four_bytes_as', bool(c['four_bytes_as']), group='bgp')
        for name in ('route_refresh', 'cisco_route_refresh', 'enhanced_route_refresh', 'graceful_restart',
                     'cisco_multi_session'):
            CONF.clear_override(name, group='bgp')
            if c['caps'] is not None:
                CONF.set_override(name, name in c['caps'], group='bgp')
        CONF.clear_override('add_path', group='bgp')
        if c.get('add_path'):
            CONF.set_override('add_path', c['add_path'], group='bgp')
        CONF.set_override('write_disk', c['handler'] == 'default', group='message')
        CONF.set_override('write_keepalive', bool(c['write_keepalive']), group='message')
        CONF.set_override('write_msg_max_size', c['max_size_mb'], group='message')
        if c['write_dir']:
            CONF.set_override('write_dir', c['write_dir'], group='message')
        yconfig.get_bgp_config()
        if c['handler'] == 'default':
            yagent.check_msg_config()
            self.h = DefaultHandler()
        else:
            self.h = Rec()
            self.h.fail = {k: set(v) for k, v in (c.get('handler_fail') or {}).items()}
        yagent.prepare_twisted_service(self.h)          # real start-up path; reactor.run() is a no-op
        self.p = CONF.bgp.running_config['factory']
        self.boot_call = [dc for dc in W.calls if dc.active()][-1]
        self.client = app.test_client()
        self.wpos = {}
        self.rpos = 0
        self.epos = 0
        self.npos = 0
        self.prev_cs = {}
        self.alive = []
        self.last_cur_idx, self.last_cur_proto = 0, None
        self.auth = self._auth(c['user'], c['password'])
        self.rest_log = None
        self.budget = None        # executed-lines budget per delivered chunk (harness/meter.py); None = not metered
        self.last_work = 0
        self.last_fired = ''

    # ------------------------------------------------------------------ helpers
    @staticmethod
    def _auth(u, p):
        return {'Authorization': 'Basic ' + base64.b64encode(('%s:%s' % (u, p)).encode()).decode()}

    def conn(self, c):
        return W.connectors[c - 1]

    def timer(self, t):
        tm = getattr(self.p.fsm, self.TIMERS[t], None)
        return getattr(tm, 'delayed_call', None) if tm is not None else None

    def rem(self, t):
        dc = self.timer(t)
        if dc is None or not dc.active():
            return OFF
        return round((dc.time - W.now) / self.tick, 6)

    def _prune_calls(self):
        if len(W.calls) > 32:
            W.calls[:] = [dc for dc in W.calls if dc.active()]

    def due_calls(self):
        self._prune_calls()
        return [dc for dc in W.calls if dc.active() and dc.time <= W.now + EPS]

    def pending_calls(self):
        self._prune_calls()
        return [dc for dc in W.calls if dc.active()]

    def guarded(self, f, *a):
        if not self.hang_guard:
            return f(*a)
        old = signal.signal(signal.SIGALRM, _alarm)
        signal.setitimer(signal.ITIMER_REAL, self.hang_guard)
        try:
            return f(*a)
        except Hang:
            W.errors.append('HANG')
        finally:
            signal.setitimer(signal.ITIMER_REAL, 0)
            signal.signal(signal.SIGALRM, old)

    # ------------------------------------------------------------------ peer stimuli
    def peer_bytes(self, ev):
        m = ev['m']
        ras = self.cfg['ras']
        if m == 'OPEN':
            caps = ev.get('caps')
            if caps is None:
                caps = self.cfg.get('peer_caps') or ['mp', 'rr', 'as4']
            asn = ev.get('asn', ras)
            return wire.open_msg(asn, ev.get('h', 90), bgp_id=ev.get('id', 0x0a000002), caps=caps, version=ev.get('ver', 4),
                                 one_param_each=ev.get('each', True))
        if m == 'OPENBADVER':
            return wire.open_msg(ras, 90, version=3)
        if m == 'OPENBADAS':
            return wire.open_msg(ras + 7 if ras + 7 != self.cfg['las'] else ras + 8, 90)
        if m == 'OPENSHORT':
            return wire.frame(wire.OPEN, b'\x04\x00')
        if m == 'KA':
            return wire.keepalive()
        if m == 'KABODY':
            return wire.frame(wire.KEEPALIVE, b'\x00')
        if m == 'UPD':
            return wire.update()
        if m == 'UPDR':
            return wire.simple_update(asns=(ras,), asn4=ev.get('asn4', True))
        if m in ('UPDBAD', 'UPDBADORIGIN'):      # ORIGIN value 7: malformed body in a well-formed frame
            return wire.update(attrs=wire.attr(0x40, 1, b'\x07') + wire.attr(0x40, 2, b'') + wire.attr(0x40, 3, b'\x0a\x00\x00\x02'),
                               nlri=wire.prefix4(24, b'\x0a\x01\x01'))
        if m == 'NOTIFVER':
            return wire.notification(2, 1)
        if m == 'NOTIF':
            return wire.notification(6, 2)
        if m == 'NOTIFSHORT':
            return wire.frame(wire.NOTIFICATION, b'\x06')
        if m == 'RR':
            return wire.route_refresh()
        if m == 'RR128':
            return wire.route_refresh(typ=wire.CISCO_RR)
        if m == 'RRBAD':
            return wire.frame(wire.ROUTEREFRESH, b'\x00\x01')
        if m == 'BADMARKER':
            return wire.frame(wire.KEEPALIVE, marker=b'\x00' + b'\xff' * 15)
        if m == 'BADLEN':
            return wire.MARKER + b'\x13\x88\x04'          # 5000 > 4096
        if m == 'BADLENSMALL':
            return wire.MARKER + b'\x00\x12\x04'          # 18 < 19
        if m == 'BADTYPE':
            return wire.frame(9)
        raise ValueError(m)

    # ------------------------------------------------------------------ events
    def signed(self, c):
        """Does connection attempt c satisfy the peer's TCP-MD5 requirement (always, when the peer has none)?"""
        if not self.cfg.get('md5_peer'):
            return True
        sock = getattr(self.conn(c), 'pending_sock', None)
        return sock is not None and any(lv == 6 and opt == 14 and val for (lv, opt, val) in sock.options)

    def can(self, ev):
        """Is this environment event possible in the real world right now?"""
        k = ev['k']
        if k == 'boot':
            return self.boot_call.active()
        if k in ('connOk', 'connRefused'):
            if not (ev['c'] <= len(W.connectors) and self.conn(ev['c']).state == 'connecting'):
                return False
            # a peer configured with a TCP-MD5 password (cfg md5_peer) never completes a handshake with an unsigned attempt
            return k == 'connRefused' or self.signed(ev['c'])
        if k == 'tcpTimeout':
            return (ev['c'] <= len(W.connectors) and self.conn(ev['c']).state == 'connecting' and
                    abs(self.conn(ev['c']).deadline - W.now) < EPS)
        if k in ('connLost', 'msg', 'data'):
            return ev['c'] <= len(W.connectors) and self.conn(ev['c']).state == 'connected'
        if k == 'tick':
            if self.due_calls():
                return False
            return not any(W.connectors[i - 1].state == 'connecting' and W.connectors[i - 1].deadline <= W.now + EPS
                           for i in self.alive)
        if k == 'fire':
            dc = self.timer(ev['t'])
            return dc is not None and dc.active() and abs(dc.time - W.now) < EPS
        return True

    def apply(self, ev):
        k = ev['k']
        self.rest_log = None
        if k == 'boot':
            self.guarded(self.boot_call.fire)
        elif k == 'connOk':
            self.guarded(self.conn(ev['c']).succeed)
        elif k == 'connRefused':
            self.guarded(self.conn(ev['c']).fail, error.ConnectionRefusedError())
        elif k == 'tcpTimeout':
            self.guarded(self.conn(ev['c']).fail, error.TimeoutError())
        elif k == 'connLost':
            kk = self.conn(ev['c'])
            self.guarded(kk.lose, error.ConnectionDone() if kk.transport.disconnecting else error.ConnectionLost())
        elif k in ('msg', 'data'):
            data = self.peer_bytes(ev) if k == 'msg' else bytes.fromhex(ev['hex'])
            if self.budget:
                import meter
                _, self.last_work, over = meter.meter().run(self.guarded, self.conn(ev['c']).deliver, data, budget=self.budget)
                if over:
                    W.errors.append('HANG')
            else:
                self.guarded(self.conn(ev['c']).deliver, data)
        elif k == 'tick':
            self.nticks += ev.get('n', 1)
            W.now = self.nticks * self.tick
        elif k == 'fire':
            self.guarded(self.timer(ev['t']).fire)
        elif k == 'enqueue':      # the application handler queues requests; the agent sends them when the next KEEPALIVE arrives
            for item in ev['items']:
                self.h.inter_mq.put(item)
        elif k == 'firedue':      # drift mode: fire whatever real call is due first
            dc = self.due_calls()[0]
            self.last_fired = ''
            for t in ('cr', 'hold', 'ka', 'idle'):
                if self.timer(t) is dc:
                    self.last_fired = t
            self.guarded(dc.fire)
        elif k == 'coop':
            pass                      # marker: from here on the environment is cooperative
        elif k == 'stop':
            self.rest('GET', 'manual-stop', peer=ev.get('peer'))
        elif k == 'start':
            self.rest('GET', 'manual-start', peer=ev.get('peer'))
        elif k == 'rest':
            self.rest(ev['method'], ev['rule'], cred=ev.get('cred', 'good'), body=ev.get('body'), query=ev.get('query'))
        else:
            raise ValueError(k)

    def rest(self, method, rule, cred='good', body=None, query=None, peer=None):
        """`peer`: how the operator writes the peer's address in the URL (default: as configured)"""
        hdr = {}
        if cred == 'good':
            hdr = dict(self.auth)
        elif cred == 'baduser':
            hdr = self._auth('nobody', self.cfg['password'])
        elif cred == 'badpass':
            hdr = self._auth(self.cfg['user'], 'wrong')
        elif cred == 'baduser-empty':          # unknown user, empty password
            hdr = self._auth('nobody', '')
        elif cred == 'gooduser-empty':
            hdr = self._auth(self.cfg['user'], '')
        elif cred == 'emptyuser':
            hdr = self._auth('', self.cfg['password'])
        elif cred == 'empty-both':
            hdr = self._auth('', '')
        elif cred == 'swapped':
            hdr = self._auth(self.cfg['password'] + 'x', self.cfg['user'])
        elif cred == 'case':
            hdr = self._auth(self.cfg['user'].upper(), self.cfg['password'].upper())
        elif cred == 'bearer':
            hdr = {'Authorization': 'Bearer ' + self.auth['Authorization'].split(' ', 1)[1]}
        elif cred == 'garbage':
            hdr = {'Authorization': 'Basic !!!not-base64!!!'}
        elif cred == 'nocolon':
            import base64
            hdr = {'Authorization': 'Basic ' + base64.b64encode(self.cfg['user'].encode()).decode()}
        url = '/v1/peer/%s/%s' % (peer or PEER, rule)
        kw = {}
        if body is not None:
            kw['json'] = body
        if query:
            kw['query_string'] = query

        def call():
            return self.client.open(url, method=method, headers=hdr, **kw)
        try:
            r = self.guarded(call)
            js = None
            try:
                js = r.get_json(silent=True)
            except Exception:
                js = None
            self.rest_log = {'rule': rule, 'method': method, 'cred': cred, 'status': r.status_code, 'json': js}
        except Exception as e:
            self.rest_log = {'rule': rule, 'method': method, 'cred': cred, 'status': 599, 'json': None, 'exc': repr(e)}
        return self.rest_log

    def rest_state(self):
        r = self.client.get('/v1/peer/%s/state' % PEER, headers=self.auth)
        try:
            return r.get_json()['peer']['fsm']
        except Exception:
            return 'HTTP%d' % r.status_code

    # ------------------------------------------------------------------ observation
    def cs(self, k):
        if k.state == 'connecting':
            return 'connecting'
        if k.state == 'connected':
            return 'closing' if k.transport.disconnecting else 'open'
        return 'closed'

    def observe(self, rest_state=False):
        """Observation after a step.  `conns` maps the 1-based connector index to its status for every
        connector that was not already seen closed by an earlier observation (bounded work per step)."""
        f = self.p.fsm
        for i in range(self.npos, len(W.connectors)):
            self.alive.append(i + 1)
        attempts = len(W.connectors) - self.npos
        self.npos = len(W.connectors)
        conns, cur, estab, out, closes = {}, 0, False, [], []
        fp = f.protocol
        for idx in self.alive:
            k = W.connectors[idx - 1]
            cs = self.cs(k)
            to = round((k.deadline - W.now) / self.tick, 6) if k.state == 'connecting' else OFF
            conns[idx] = {'cs': cs, 'to': to}
            if cs == 'closing' and self.prev_cs.get(idx) != 'closing':
                closes.append(idx)
            if k.transport is not None and hasattr(k.transport, 'written'):
                pos = self.wpos.get(idx, 0)
                wr = k.transport.written
                if len(wr) > pos:
                    for (t, d) in wr[pos:]:
                        frames, _ = wire.split_frames(d)
                        for typ, body, raw in frames:
                            dd = wire.describe(typ, body)
                            dd['c'] = idx
                            dd['raw'] = raw
                            out.append(dd)
                    self.wpos[idx] = len(wr)
        if fp is not None:
            for idx in self.alive:
                if W.connectors[idx - 1].protocol is fp:
                    cur = idx
            if not cur:
                cur = self.last_cur_idx if self.last_cur_proto is fp else -1
            self.last_cur_idx, self.last_cur_proto = cur, fp
        estab = self.p.estab_protocol is not None
        self.prev_cs = {idx: c['cs'] for idx, c in conns.items()}
        self.alive = [idx for idx in self.alive if conns[idx]['cs'] != 'closed']
        rep = []
        if isinstance(self.h, Rec):
            rep = self.h.log[self.rpos:]
            self.rpos = len(self.h.log)
        errs = W.errors[self.epos:]
        self.epos = len(W.errors)
        try:
            stat = api_utils.get_peer_msg_statistic(PEER)
            stat = {'s': dict(stat['send']), 'r': dict(stat['receive'])}
        except Exception:
            stat = None
        o = {'st': C.stateDescr[f.state],
             'tm': {t: self.rem(t) for t in ('cr', 'hold', 'ka', 'idle')},
             'allow': bool(f.allow_automatic_start), 'hold': f.hold_time, 'conns': conns, 'cur': cur, 'estab': estab,
             'out': out, 'rep': rep, 'closes': closes, 'attempts': attempts, 'errs': errs, 'stat': stat,
             'rest': self.rest_log, 'now': self.nticks,
             'pending': len(self.pending_calls()) + sum(1 for c in conns.values() if c['cs'] == 'connecting')}
        if rest_state:
            o['st_rest'] = self.rest_state()
        return o
