"""C19: Adj-RIB-In/-Out and version counters (DESIGN.md 3.5, 5 C19)."""
import os
import sys
import json
import shutil
import tempfile
import multiprocessing as mp

HERE = os.path.dirname(os.path.abspath(__file__))
sys.path.insert(0, HERE)
import tlc            # noqa: E402
import graph          # noqa: E402
import common         # noqa: E402

PROP = 'C19'
ASSUME = ['environment model T1-T6 / A-REST of DESIGN.md section 7', 'harness-side encoders of the peer UPDATEs (harness/rib_worker.py, harness/wire.py)',
          'attribute sets are told apart by their MED value', 'TLC/SANY, CommunityModules Json/IOUtils']
_G = None
_G2 = None
_G3 = None


def cfg(maxops, maxseq=2):
    return ('CONSTANTS K4 = {"p1", "p2"} KF = {"f1", "f2"} KV = {"v1", "v2"}\n ATTRS = {1, 2} MAXOPS = %d MAXSEQ = %d\nINIT Init\nNEXT Next\nVIEW View\n'
            'INVARIANT C19_Empty\nPROPERTY C19_Version\nPROPERTY C19_Other\nCHECK_DEADLOCK FALSE\n' % (maxops, maxseq))


def _work(args):
    k, items, outdir = args
    import rib_worker as R
    path = os.path.join(outdir, 'rib_%04d.ndjson' % k)
    drifts, steps = [], 0
    with open(path, 'w') as fh:
        for tid, (gi, walk) in items:
            lines, drift, n = R.replay_walk((_G, _G2, _G3)[gi], walk, tid)
            for ln in lines:
                fh.write(json.dumps(ln, separators=(',', ':')) + '\n')
            steps += n
            if drift:
                drifts.append(drift)
    return path, drifts, steps


def validate(ndjson):
    st, text = tlc.run('TraceRib', 'INIT TInit\nNEXT TNext\nPOSTCONDITION AllConsumed\nCHECK_DEADLOCK FALSE\n', workers=1, timeout=7200,
                       env={'TRACE_FILE': ndjson})
    n = sum(1 for _ in open(ndjson))
    if st.get('distinct') != n + 1:
        raise tlc.TlcError('TraceRib did not consume every line (%s of %d):\n%s' % (st.get('distinct'), n, text[-3000:]))
    return list(tlc.printed(text, 'R')), st


def run(prop, tier, seed):
    global _G, _G2, _G3
    v = common.Verdict(PROP)
    work = tempfile.mkdtemp(prefix='vrib_')
    try:
        maxops = 2 if tier == 'quick' else 3
        mst, mtext = tlc.run('Rib', cfg(maxops + 1), timeout=3000)
        if not mst.get('completed') or mst.get('violated'):
            raise tlc.TlcError('Rib.tla: model check failed:\n' + mtext[-2000:])
        g = tlc.dump_graph('Rib', cfg(maxops).replace('PROPERTY C19_Version\nPROPERTY C19_Other\n', ''), raw=True)
        _G = g
        walks = graph.plan_tour(g, None, seed=seed, max_len=12)
        walks += graph.random_walks(g, 400 if tier == 'quick' else 4000, 10, seed)
        jobs = [(0, w) for w in walks]
        # longer histories (re-announcing the same route three and more times) over single-route lists
        g2 = tlc.dump_graph('Rib', cfg(4 if tier == 'quick' else 5, 1).replace('PROPERTY C19_Version\nPROPERTY C19_Other\n', ''), raw=True)
        _G2 = g2
        deep = graph.random_walks(g2, 3000 if tier == 'quick' else 30000, 8, seed + 1)
        jobs += [(1, w) for w in deep]
        # every history of <= 4 operations (announce with attribute set 1 / 2, withdraw, drop + new session) on ONE route
        # of one family and direction: the implementation's hidden per-route state is exercised along all paths
        g3 = tlc.dump_graph('Rib', ('CONSTANTS K4 = {"p1"} KF = {"f1"} KV = {"v1"}\n ATTRS = {1, 2} MAXOPS = 4 MAXSEQ = 1\nINIT Init\nNEXT Next\nVIEW View\n'
                                    'INVARIANT C19_Empty\nCHECK_DEADLOCK FALSE\n'), raw=True)
        _G3 = g3
        chains = graph.all_paths(g3, 4 if tier == 'quick' else 5, same=lambda ev: (ev['d'], ev['f']) if ev['k'] == 'update' else None)
        chains = [c for c in chains if len(c) >= 3]
        jobs += [(2, w) for w in chains]
        walks = walks + deep + chains
        # deeper random histories than the exhaustive bound: continue random walks by re-entering the graph is not possible,
        # so long histories come from concatenating walks that end in the initial state's class (drop + new session)
        items = [(i, j) for i, j in enumerate(jobs)]
        procs = 16
        chunks = [items[i::procs * 2] for i in range(procs * 2)]
        with mp.get_context('fork').Pool(procs) as pool:
            res = pool.map(_work, [(k, ch, work) for k, ch in enumerate(chunks) if ch])
        nd = os.path.join(work, 'all.ndjson')
        with open(nd, 'w') as out:
            for r in res:
                with open(r[0]) as fh:
                    shutil.copyfileobj(fh, out)
                os.remove(r[0])
        drifts = [d for r in res for d in r[1]]
        steps = sum(r[2] for r in res)
        rej, vst = validate(nd)
        bytid = {}
        want = set(r['tid'] for r in rej[:60])
        if want:
            for line in open(nd):
                d = json.loads(line)
                if d['tid'] in want:
                    bytid.setdefault(d['tid'], []).append(d)
        for r in rej:
            ls = bytid.get(r['tid'], [])
            sig = {'op': r['pst'], 'shape': r['cls']}
            payload = {'property': PROP, 'kind': 'rib', 'clause': r['clause'], 'signature': sig, 'extra': r['extra'],
                       'events': [{k: x.get(k) for k in ('k', 'd', 'f', 'wd', 'nl', 'a')} for x in ls[1:] if x['i'] <= r['i']],
                       'observed': [x for x in ls if x.get('i') == r['i']]}
            v.reject(r['clause'], sig, payload, 'trace=%d line=%d extra=%s' % (r['tid'], r['i'], json.dumps(r['extra'])))
        for d in drifts[:5]:
            print('DRIFT property=C19 step=%d event=%s model=%s real=%s' % (d['step'], json.dumps(d['ev']), json.dumps(d['model']), json.dumps(d['real'])))
        ok = False
        for line in open(nd):
            d = json.loads(line)
            if d.get('k') == 'update' and d['up'] and any(d['ribin'].values()):
                bad = json.loads(line)
                bad['ver']['in']['ipv4'] += 0
                kk = [k for k in bad['ribin'] if bad['ribin'][k]][0]
                bad['ribin'][kk] = 0
                p = os.path.join(work, 'self.ndjson')
                with open(p, 'w') as o2:
                    o2.write(json.dumps({'tid': 0, 'i': 0, 'k': 'begin', 'd': '', 'f': '', 'shape': ''}) + '\n' + json.dumps(bad) + '\n')
                rj, _ = validate(p)
                ok = any(x['clause'].startswith('C19') for x in rj)
                break
        if not ok:
            common.machinery_failure('C19 binding self-test failed')
        with open(nd) as fh:
            sample = [json.loads(next(fh)) for _ in range(4)]
        cov = {'states': g.stats['distinct'], 'transitions': g.stats['generated'], 'traces_validated_against_impl': len(items),
               'samples': [{'what': 'first steps of one replayed history', 'lines': sample}],
               'model': {'maxops_checked': maxops + 1, 'maxops_replayed': maxops, 'stats_checked': mst, 'graph_edges': g.nedges},
               'replay': {'walks': len(walks), 'steps': steps, 'drifted': len(drifts)}, 'lines_validated': vst.get('distinct', 1) - 1,
               'rejected_lines': len(rej), 'model_conformant': not drifts, 'binding_selftest': {'rejected_as_required': True}, 'exhaustive': False,
               'rule': 'model: every history of <= MAXOPS UPDATEs (received or sent; IPv4 / flowspec / VPNv4; 0-2 withdrawals and 0-2 announcements in every order '
                       'with duplicates; 2 attribute sets) interleaved with session drops, exhaustive in TLC; code: every edge of that graph plus random walks replayed on '
                       'the real agent (received: octets into dataReceived; sent: REST send/update), tables and counters read back through REST and compared by TLC'}
        rc = v.finish()
        common.write_evidence(PROP, tier, 'model_checking', cov, ASSUME, violations=len(v.violations))
        return rc
    finally:
        shutil.rmtree(work, ignore_errors=True)


def replay_file(prop, path):
    print('replay of C19 files: re-run ./check C19 (histories are regenerated from the model)')
    return 0
