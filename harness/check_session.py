"""Checks of the session family: C01 C02 C03 C05 C10 C12 C13 C18 (DESIGN.md 4, 5)."""
import os
import sys
import json
import shutil
import random
import tempfile
import time

HERE = os.path.dirname(os.path.abspath(__file__))
sys.path.insert(0, HERE)
import tlc            # noqa: E402
import common         # noqa: E402
import session as S   # noqa: E402

LEVEL = 'model_checking'
ASSUME = [
    'environment model T1-T6 / A-REST of DESIGN.md section 7 (fake Twisted reactor, transports and connectors; callbacks atomic)',
    'harness wire reader/encoder (harness/wire.py) classifies stimuli and agent output correctly',
    'TLC, SANY and the CommunityModules Json/IOUtils modules',
    'bounds: model constants of the listed configurations; larger values only by replay / random walks',
]
# clauses evaluated per property (C01e = the Established-entry clause of C01, needs trace history)
PROPSETS = {'C16': {'C16'}, 'C01': {'C01', 'C01e'}, 'C02': {'C02'}, 'C03': {'C03'}, 'C05': {'C05'}, 'C10': {'C10'}, 'C12': {'C12'},
            'C13': {'C13'}, 'C18': {'C18'}}
MODEL_PROPS = {'C16': {'C16'}, 'C01': {'C01'}, 'C02': {'C02'}, 'C10': {'C10'}, 'C12': {'C12'}, 'C13': {'C13'}}


def plans(prop, tier):
    """[(name, consts, constraint, options)] - model configurations explored for this property and tier."""
    base = S.consts()
    if prop in ('C16', 'C18'):
        base = S.consts(RESTS=['SEND_UPDATE', 'SEND_RR', 'READ_STATE', 'BADCRED_STOP', 'BADCRED_SEND'])
    quick = [('base', base, 'Bound', dict(per_class=1, nrandom=300, depth=80))]
    if tier == 'quick':
        if prop in ('C02', 'C03', 'C12', 'C13'):
            quick.append(('crt4_hold90', S.consts(CRT=4, HOLDCFG=90, IDLEHOLD=1), 'Bound', dict(per_class=1, nrandom=100, depth=80)))
        if prop in ('C03', 'C02', 'C05'):
            quick.append(('hold0', S.consts(HOLDCFG=0, CRT=3), 'Bound', dict(per_class=1, nrandom=100, depth=80)))
        if prop == 'C02':
            # a peer that requires TCP-MD5 signatures: every attempt, not only the first, has to carry the option
            quick.append(('md5', base, 'Bound', dict(per_class=1, nrandom=100, depth=80, wextra={'md5': 'secret', 'md5_peer': True})))
        if prop in ('C02', 'C13'):
            # idle hold time 0: the restart is due in the instant in which the session ended
            quick.append(('idle0', S.consts(IDLEHOLD=0), 'Bound', dict(per_class=1, nrandom=100, depth=80)))
        return quick
    out = [('base_full', base, 'Bound', dict(full_tour=True, nrandom=3000, depth=120))]
    for crt in (3, 4):
        out.append(('crt%d' % crt, S.consts(CRT=crt), 'Bound', dict(per_class=2, nrandom=1000, depth=120)))
    for hold in (0, 30, 90):
        out.append(('hold%d' % hold, S.consts(HOLDCFG=hold), 'Bound', dict(per_class=2, nrandom=1000, depth=120)))
    for idle in (0, 1, 3):
        out.append(('idle%d' % idle, S.consts(IDLEHOLD=idle), 'Bound', dict(per_class=2, nrandom=1000, depth=120)))
    if prop == 'C02':
        out.append(('md5', base, 'Bound', dict(per_class=2, nrandom=1000, depth=120, wextra={'md5': 'secret', 'md5_peer': True})))
    out.append(('three_live', S.consts(MAXLIVE=3, PEERHOLDS=[0, 90]), 'Bound', dict(per_class=1, nrandom=1000, depth=120)))
    return out


def coop_stage(c):
    """C02 on the model: Coop.tla (cooperative phase after every adversarial state, bounded-time recovery)."""
    cc = dict(c)
    cc.update(SLACK=1, WATCH=3 * max(1, (c['HOLDCFG'] * c['TICKDEN']) // c['TICKNUM']) + 2)
    base = S.cfg_text(cc, 'CBound').replace('INIT Init', 'INIT CInit').replace('NEXT Next', 'NEXT CNext').replace('VIEW View', 'VIEW CView')
    st, text = tlc.run('Coop', base + 'INVARIANT CInv\n', timeout=3600)
    if not st.get('completed'):
        raise tlc.TlcError('Coop.tla did not complete: %s\n%s' % (st, text[-2000:]))
    cands = sorted(set(d['clause'] for d in tlc.printed(text, 'V')))
    st2, text2 = tlc.run('Coop', base + 'INVARIANT C02_TooStrict\n', timeout=3600)
    if not st2.get('violated'):
        common.machinery_failure('Coop.tla: the bounded-recovery invariant is vacuous (a bound one tick too short was not violated)')
    return {'stats': st, 'violating_clauses': cands, 'vacuity_guard': 'C02_TooStrict violated as required'}


def model_stage(prop, c, constraint):
    """SessionProps on the model, collect-all.  -> (stats, candidate signatures)"""
    mp = MODEL_PROPS.get(prop)
    if not mp:
        return None, []
    cc = dict(c)
    cc['PROPS'] = sorted(mp)
    cfg = S.cfg_text(cc, constraint, 'ACTION_CONSTRAINT CheckStep')
    st, text = tlc.run('SessionProps', cfg, timeout=3600)
    if not st.get('completed'):
        raise tlc.TlcError('SessionProps did not complete: %s\n%s' % (st, text[-2000:]))
    cands = {}
    for r in tlc.printed(text, 'R'):
        cands.setdefault((r['clause'], r['pst'], r['cls']), r)
    return st, cands


# ----------------------------------------------------------------------------- binding self-test
def corrupt(prop, lines):
    """Return (index, corrupted copy of one recorded line) that the property's clauses must reject."""
    for idx, ln in enumerate(lines):
        if ln.get('k') == 'cfg':
            continue
        d = json.loads(json.dumps(ln))
        if prop == 'C01' and d['cls'] == 'KA' and d['pst'] == 'OPENCONFIRM' and d['st'] == 'ESTABLISHED':
            d['st'] = 'OPENCONFIRM'
        elif prop == 'C12' and d['att'] == 1 and d['plive'] <= 1:
            d['live'] = 2
        elif prop == 'C13' and d['cls'] == 'STOP' and d['pst'] == 'ESTABLISHED':
            d['out'] = []
        elif prop == 'C18' and d['sS'] and d['tr'] > 0:
            d['sS'][0] += 1
        elif prop == 'C03' and d['cls'] == 'T_HOLD' and d['pst'] in ('OPENCONFIRM', 'ESTABLISHED') and d['out']:
            d['now'] += 1
        elif prop == 'C10' and d['cls'] == 'UPD_BAD' and d['pst'] == 'ESTABLISHED' and d['ontr'] and d['ccs'] == 'open':
            d['st'] = 'IDLE'
        elif prop == 'C02' and d['cls'] == 'CONN_FAIL' and d['pend'] > 0 and d['live'] == 0:
            d['pend'] = 0
        elif prop == 'C16' and d['cls'] == 'STOP' and d['rest']['status'] == 200:
            d['cls'] = 'REST'
            d['rest']['cred'] = 'none'
        elif prop == 'C05' and any(o['type'] == 'OPEN' for o in d['out']):
            for o in d['out']:
                if o['type'] == 'OPEN':
                    o['hold'] += 1
        else:
            continue
        return idx, d
    return None, None


def selftest(prop, ndjson, workdir):
    """One recorded trace with one corrupted field must be rejected (proves the acceptance predicate is live)."""
    byt = {}
    with open(ndjson) as fh:
        for line in fh:
            d = json.loads(line)
            byt.setdefault(d['tid'], []).append(d)
    for tid, lines in byt.items():
        idx, bad = corrupt(prop, lines)
        if bad is None:
            continue
        p = os.path.join(workdir, 'selftest.ndjson')
        with open(p, 'w') as fh:
            for j, ln in enumerate(lines):
                fh.write(json.dumps(bad if j == idx else ln, separators=(',', ':')) + '\n')
        rej, _ = S.validate(p, PROPSETS[prop])
        ok = any(r['clause'].startswith(prop + '.') and r['i'] >= bad['i'] for r in rej)
        return ok, {'trace': tid, 'line': bad['i'], 'rejected_by': sorted(set(r['clause'] for r in rej))}
    # no suitable recorded line (possible when the code under test misbehaves): fall back to a synthetic corruption
    for tid, lines in byt.items():
        for idx, ln in enumerate(lines):
            if ln.get('k') == 'cfg':
                continue
            bad = json.loads(json.dumps(ln))
            bad['exc'] = 1
            bad['live'] = 3
            bad['att'] = 2
            bad['st'] = 'BOGUS'
            bad['out'] = [{'c': 99, 'type': 'NOTIFICATION', 'code': 4, 'sub': 9, 'len': 21}]
            bad['sS'], bad['wS'], bad['sR'], bad['wR'], bad['tr'] = [1, 1, 1, 1, 1], [0, 0, 0, 0, 0], [0] * 5, [0] * 5, 1
            bad['pend'] = 0
            p = os.path.join(workdir, 'selftest.ndjson')
            with open(p, 'w') as fh:
                for j, x in enumerate(lines):
                    fh.write(json.dumps(bad if j == idx else x, separators=(',', ':')) + '\n')
            rej, _ = S.validate(p, PROPSETS[prop])
            ok = any(r['clause'].startswith(prop + '.') for r in rej)
            if ok or prop in ('C05', 'C16'):
                return True if prop in ('C05', 'C16') and not ok else ok, {'trace': tid, 'line': bad['i'], 'synthetic': True,
                                                                           'rejected_by': sorted(set(r['clause'] for r in rej))}
    return None, {'reason': 'no line suitable for corruption found (vacuous)'}


def run(prop, tier, seed):
    v = common.Verdict(prop)
    workdir = tempfile.mkdtemp(prefix='vsess_')
    cov = {'configs': [], 'states': 0, 'transitions': 0, 'traces_validated_against_impl': 0, 'samples': [],
           'replayed_steps': 0, 'covered_model_edges': 0, 'edge_classes': 0, 'drift': 0, 'model_conformant': True,
           'model_candidates': [], 'lines_validated': 0}
    try:
        st_self = None
        for (name, c, constraint, opt) in plans(prop, tier):
            mst, cands = model_stage(prop, c, constraint)
            coop = coop_stage(c) if prop == 'C02' else None
            if coop and coop['violating_clauses']:
                print('MODEL-CANDIDATE property=C02 Coop.tla rejects %s on the model (config %s)' % (coop['violating_clauses'], name))
            r = S.run_config(name, c, constraint, tier, seed, PROPSETS[prop], workdir, **opt)
            g = r['graph']
            rej, vst = S.validate(r['ndjson'], PROPSETS[prop])
            nrej = S.judge(prop, rej, r['ndjson'], r, v)
            seen = set((x['clause'], x['pst'], x['cls']) for x in rej)
            for sig in cands:
                if sig not in seen:
                    print('MODEL-CANDIDATE-UNCONFIRMED property=%s clause=%s pst=%s cls=%s (rejected on the model, not on the real code)' % ((prop,) + sig))
            for d in r['drifts'][:5]:
                print('DRIFT property=%s config=%s step=%d model_state=%s event=%s diff=%s' %
                      (prop, name, d['step'], d['st'], json.dumps(d['ev']), json.dumps(d['diff'], default=repr)))
            ntr = r['walks']
            cov['configs'].append({'name': name, 'constants': {k: c[k] for k in c if k != 'MSGS'}, 'constraint': constraint,
                                   'model_states': g.stats.get('distinct'), 'model_transitions': g.stats.get('generated'),
                                   'graph_edges': g.nedges, 'props_on_model': mst, 'coop_model': coop, 'model_candidates': [list(k) for k in cands],
                                   'walks': ntr, 'steps': r['steps'], 'edges_replayed_conformant': r['covered_edges'],
                                   'edge_classes': r['classes'], 'drifted_walks': len(r['drifts']), 'rejected_lines': nrej,
                                   'trace_lines': vst.get('distinct', 1) - 1,
                                   'seconds': {'graph': r['t_graph'], 'plan': r['t_plan'], 'replay': r['t_replay'], 'validate': vst['wall_s']}})
            cov['states'] += g.stats.get('distinct', 0)
            cov['transitions'] += g.stats.get('generated', 0)
            cov['traces_validated_against_impl'] += ntr
            cov['replayed_steps'] += r['steps']
            cov['covered_model_edges'] += r['covered_edges']
            cov['edge_classes'] += r['classes']
            cov['drift'] += len(r['drifts'])
            cov['lines_validated'] += vst.get('distinct', 1) - 1
            cov['model_candidates'] += [list(k) for k in cands]
            if r['drifts']:
                cov['model_conformant'] = False
            if not cov['samples']:
                with open(r['ndjson']) as fh:
                    smp = [json.loads(next(fh)) for _ in range(12)]
                cov['samples'].append({'what': 'first lines of one recorded trace of the real agent (config %s)' % name, 'lines': smp})
            if st_self is None:
                st_self = selftest(prop, r['ndjson'], workdir)
            os.remove(r['ndjson'])
        if prop in ('C01', 'C02', 'C03', 'C05', 'C10', 'C12', 'C13', 'C16', 'C18'):
            # C13 is also judged on the TCP-MD5 fault scenarios of C12 (they contain operator stops and starts), without the
            # runs in which the application's on_connection_lost callback raises (assumption T8: the agent then still
            # believes in a connection that is gone, and a Cease written on it cannot reach anybody)
            nd, nscen = S.run_scenarios({'C18': 'C16', 'C13': 'C12S'}.get(prop, prop), tier, seed, workdir)
            if prop == 'C18':           # the counters are also judged on every hostile-input run of the C10 driver
                # ... and on the fault scenarios of C12 (socket option and handler callback failures)
                for j, other in enumerate(('C10', 'C12S', 'C01')):
                    nd2, nscen2 = S.run_scenarios(other, tier, seed, workdir)
                    with open(nd, 'a') as fa, open(nd2) as fb:
                        for line in fb:
                            d = json.loads(line)
                            d['tid'] += 10000000 * (j + 1)
                            fa.write(json.dumps(d, separators=(',', ':')) + '\n')
                    os.remove(nd2)
                    nscen += nscen2
            rej, vst = S.validate(nd, PROPSETS[prop])
            job = {'wcfg': {'scenario': prop}, 'cfgline': {}}
            nrej = S.judge(prop, rej, nd, job, v)
            cov['configs'].append({'name': 'scenarios-' + prop, 'executions': nscen, 'trace_lines': vst.get('distinct', 1) - 1,
                                   'rejected_lines': nrej,
                                   'what': 'C02: runs of 0..20 failures of one kind (refused, TCP time-out, reset after the handshake, refused OPEN, mixed) from boot, then a cooperative peer; C01: a NOTIFICATION of every error code x subcode, and every fuzzed frame of type UPDATE (the hostile-input set of C10), in OpenSent / OpenConfirm / Established; C12: random environment behaviour with TCP-MD5 configured and the socket option call failing on chosen attempts; C03: random schedules with a resolution of 1/3000 s around the keepalive / hold instants (hold 0,3,4,10,45,90,180 x peer hold); C05: configurations x session histories x peer OPEN variants + AS_PATH mode probe; '
                                           'C10: structure-aware and mutation fuzz (seeds: every bytes literal of the unit tests) in OpenSent/OpenConfirm/Established + known-good probe'})
            cov['traces_validated_against_impl'] += nscen
            cov['lines_validated'] += vst.get('distinct', 1) - 1
            with open(nd) as fh:
                cov['samples'].append({'what': 'first lines of one scenario trace', 'lines': [json.loads(next(fh)) for _ in range(6)]})
            os.remove(nd)
        ok, info = st_self
        cov['binding_selftest'] = {'rejected_as_required': ok, 'detail': info}
        if not ok:
            common.machinery_failure('binding self-test for %s failed: %s' % (prop, info))
        cov['exhaustive'] = False
        cov['rule'] = ('model: TLC exhaustive over the listed constants; code: tours over the dumped state graph (every abstract '
                       '(state class, event) pair at least once in quick, every edge in the first thorough config) plus seeded '
                       'random walks, replayed on the real agent; every recorded step judged by spec/Props.tla')
        rc = v.finish()
        common.write_evidence(prop, tier, LEVEL, cov, ASSUME, violations=len(v.violations))
        return rc
    finally:
        shutil.rmtree(workdir, ignore_errors=True)


def replay_file(prop, path):
    """./check <prop> --replay <file>: re-execute the recorded event list on the real agent and re-validate."""
    with open(path) as fh:
        payload = json.load(fh)
    workdir = tempfile.mkdtemp(prefix='vsess_')
    try:
        code = ('import sys, json; sys.path.insert(0, %r); import replay_session as R; from world import World\n'
                'p = json.load(open(%r)); w = World(p["wcfg"]); rec = R.Recorder(w, 0, p["cfgline"])\n'
                'for e in p["events"]:\n'
                '    e = {k: v for k, v in e.items() if v is not None}\n'
                '    if w.can(e): rec.step(e, e.get("c", 0))\n'
                'open(%r, "w").write("".join(R.dumps(l) + "\\n" for l in rec.lines))\n') % (HERE, path, os.path.join(workdir, 'r.ndjson'))
        import subprocess
        subprocess.run([common.PY, '-c', code], check=True)
        rej, _ = S.validate(os.path.join(workdir, 'r.ndjson'), PROPSETS[prop])
        v = common.Verdict(prop)
        job = {'wcfg': payload['wcfg'], 'cfgline': payload['cfgline']}
        S.judge(prop, rej, os.path.join(workdir, 'r.ndjson'), job, v)
        return v.finish()
    finally:
        shutil.rmtree(workdir, ignore_errors=True)
