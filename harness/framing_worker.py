"""Worker side of the C04 check: deliver streams in given segmentations to the real BGP protocol object of an
Established session and record what it reported / wrote / closed after every chunk."""
import json
import world
import meter
from world import World, W

CB = {'update_received': 'U', 'on_update_error': 'U', 'keepalive_received': 'K', 'notification_received': 'N',
      'open_received': 'O', 'route_refresh_received': 'R'}
BUDGET = 400000


class Sessions(object):
    """Hands out Established sessions of the real agent, re-using one World: the previous connection is ended
    by the peer, the idle-hold timer is run out, and a new session is opened with the same event sequence a
    peer would produce (no internals are touched)."""

    def __init__(self):
        self.w = None
        self.used = 0

    def fresh(self):
        self.w = World({'hold': 0, 'ras': 65002})
        self.used = 0
        self.w.apply({'k': 'boot'})

    def get(self):
        w = self.w
        if w is None or self.used >= 250:
            self.fresh()
            w = self.w
        else:
            try:
                k = W.connectors[-1]
                if k.state == 'connected':
                    w.apply({'k': 'connLost', 'c': len(W.connectors)})
                dc = w.timer('idle')
                if dc is None or not dc.active():
                    raise RuntimeError('no idle-hold timer')
                w.nticks = int(round(dc.time / w.tick))
                W.now = w.nticks * w.tick
                dc.fire()
                if W.connectors[-1].state != 'connecting':
                    raise RuntimeError('no new attempt')
            except Exception:
                self.fresh()
                w = self.w
        c = len(W.connectors)
        for ev in [{'k': 'connOk', 'c': c}, {'k': 'msg', 'c': c, 'm': 'OPEN', 'h': 0}, {'k': 'msg', 'c': c, 'm': 'KA'}]:
            w.apply(ev)
        o = w.observe()
        if o['st'] != 'ESTABLISHED' or o['errs']:
            self.fresh()
            return self.get()
        self.used += 1
        if self.used % 5 == 0:
            # every fifth session has already sent a NOTIFICATION that did not end it (a request queued by the application
            # handler, written when the next KEEPALIVE arrives): framing must be judged the same afterwards
            w.apply({'k': 'enqueue', 'items': [{'type': 'notification', 'msg': {'error': 6, 'sub_error': 4, 'data': b''}}]})
            w.apply({'k': 'msg', 'c': c, 'm': 'KA'})
            o = w.observe()
            if o['st'] != 'ESTABLISHED':
                self.fresh()
                return self.get()
        return w, c


SESS = Sessions()


def canon(x):
    return json.dumps(x, sort_keys=True, default=repr)


def run_one(data, cuts, tid, shape, cutname, ref_payloads=None):
    """Deliver `data` cut at the offsets `cuts` (sorted, < len).  -> (lines, payload list)"""
    w, c = SESS.get()
    M = meter.meter()
    k = w.conn(c)
    bounds = sorted(set(c for c in cuts if 0 < c < len(data))) + [len(data)]
    lines = [{'tid': tid, 'i': 0, 'k': 'stream', 'bytes': list(data), 'shape': shape, 'cut': cutname}]
    ext, nots, pays = [], [], []
    pos = 0
    for i, b in enumerate(bounds):
        chunk = data[pos:b]
        pos = b
        _, work, over = M.run(k.deliver, chunk, budget=BUDGET)
        o = w.observe()
        for name, payload in o['rep']:
            if name in CB:
                ext.append(CB[name])
                pays.append(canon(payload if name != 'open_received' else None))
        for d in o['out']:
            if d['type'] == 'NOTIFICATION':
                nots.append([d['code'], d['sub']])
        payeq = [True] * len(pays)
        if ref_payloads is not None:
            payeq = [j < len(ref_payloads) and ref_payloads[j] == p for j, p in enumerate(pays)]
        lines.append({'tid': tid, 'i': i + 1, 'k': 'chunk', 'avail': b, 'n': len(chunk), 'ext': list(ext), 'nots': list(nots),
                      'closed': bool(k.transport.disconnecting), 'work': work, 'over': bool(over), 'payeq': payeq,
                      'exc': len(o['errs']), 'shape': shape, 'cut': cutname})
    return lines, pays
