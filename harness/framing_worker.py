"""Worker side of the C04 check: deliver streams in given segmentations to the real BGP protocol object of an
Established session and record what it reported / wrote / closed after every chunk."""
import json
import world
import meter
from world import World, W

CB = {'update_received': 'U', 'on_update_error': 'U', 'keepalive_received': 'K', 'notification_received': 'N',
      'open_received': 'O', 'route_refresh_received': 'R'}
BUDGET = 400000


class Sessions(object):
    """Hands out Established sessions of the real agent, re-using one World: the previous connection is ended
    by the peer, the idle-hold timer is run out, and a new session is opened with the same event sequence a
    peer would produce (no internals are touched)."""

    def __init__(self):
        self.w = None
        self.used = 0

    def fresh(self):
        self.w = World({'hold': 0, 'ras': 65002})
        self.used = 0
        self.w.apply({'k': 'boot'})

    def get(self):
        w = self.w
        if w is None or self.used >= 250:
            self.fresh()
            w = self.w
        else:
            try:
                k = W.connectors[-1]
                if k.state == 'connected':
                    w.apply({'k': 'connLost', 'c': len(W.connectors)})
                dc = w.timer('idle')
                if dc is None or not dc.active():
                    raise RuntimeError('no idle-hold timer')
                w.nticks = int(round(dc.time / w.tick))
                W.now = w.nticks * w.tick
                dc.fire()
                if W.connectors[-1].state != 'connecting':
                    raise RuntimeError('no new attempt')
            except Exception:
                self.fresh()
                w = self.w
        c = len(W.connectors)
        for ev in [{'k': 'connOk', 'c': c}, {'k': 'msg', 'c': c, 'm': 'OPEN', 'h': 0}, {'k': 'msg', 'c': c, 'm': 'KA'}]:
            w.apply(ev)
        o = w.observe()
        if o['st'] != 'ESTABLISHED' or o['errs']:
            self.fresh()
            return self.get()
        self.used += 1
        if self.used % 5 == 0:
            # every fifth session has already sent a NOTIFICATION that did not end it (a request queued by the application
            # handler, written when the next KEEPALIVE arrives): framing must be judged the same afterwards
            w.apply({'k': 'enqueue', 'items': [{'type': 'notification', 'msg': {'error': 6, 'sub_error': 4, 'data': b''}}]})
            _, _, over = meter.meter().run(w.apply, {'k': 'msg', 'c': c, 'm': 'KA'}, budget=BUDGET)
            o = w.observe()
            if over or o['st'] != 'ESTABLISHED':
                self.fresh()
                return self.get()
        return w, c


SESS = Sessions()


def canon(x):
    return json.dumps(x, sort_keys=True, default=repr)


def run_one(data, cuts, tid, shape, cutname, ref_payloads=None):
    """Deliver `data` cut at the offsets `cuts` (sorted, < len).  -> (lines, payload list)"""
    w, c = SESS.get()
    M = meter.meter()
    k = w.conn(c)
    if tid % 7 == 3:
        # the application has queued an UPDATE that cannot be encoded (and one that can): whatever the agent does with them
        # when the next KEEPALIVE arrives, the stream is handled as always and every chunk in bounded work
        w.apply({'k': 'enqueue', 'items': [{'type': 'update', 'msg': {'attr': {1: 0, 2: [(2, [65001])], 3: 'not-an-address'}, 'nlri': ['10.66.0.0/16']}},
                                           {'type': 'update', 'msg': {'attr': {1: 0, 2: [(2, [65001])], 3: '10.0.0.1'}, 'nlri': ['10.67.0.0/16']}}]})
    bounds = sorted(set(c for c in cuts if 0 < c < len(data))) + [len(data)]
    lines = [{'tid': tid, 'i': 0, 'k': 'stream', 'bytes': list(data), 'shape': shape, 'cut': cutname}]
    ext, nots, pays = [], [], []
    pos = 0
    for i, b in enumerate(bounds):
        chunk = data[pos:b]
        pos = b
        _, work, over = M.run(k.deliver, chunk, budget=BUDGET)
        o = w.observe()
        for name, payload in o['rep']:
            if name in CB:
                ext.append(CB[name])
                pays.append(canon(payload if name != 'open_received' else None))
        for d in o['out']:
            if d['type'] == 'NOTIFICATION':
                nots.append([d['code'], d['sub']])
        payeq = [True] * len(pays)
        if ref_payloads is not None:
            payeq = [j < len(ref_payloads) and ref_payloads[j] == p for j, p in enumerate(pays)]
        if over:
            SESS.w = None          # a call that had to be cut off leaves the agent in an unknown state: the next run starts afresh
        lines.append({'tid': tid, 'i': i + 1, 'k': 'chunk', 'avail': b, 'n': len(chunk), 'ext': list(ext), 'nots': list(nots),
                      'closed': bool(k.transport.disconnecting), 'work': work, 'over': bool(over), 'payeq': payeq,
                      'exc': len(o['errs']), 'shape': shape, 'cut': cutname})
    return lines, pays


def run_long(n, segname, tid, seed=0):
    """A long run of well-formed messages on one connection: n UPDATEs (each withdrawing its own /32) and a final KEEPALIVE,
    delivered message by message, in 64 KB reads or in random reads.  The stream is well formed by construction, so the
    expected outcome needs no reference deframer: every UPDATE reported once, in order, then the KEEPALIVE, nothing else."""
    import random
    import struct
    import wire
    w, c = SESS.get()
    M = meter.meter()
    k = w.conn(c)
    msgs = [wire.update(withdrawn=wire.prefix4(32, struct.pack('!I', 0x64000000 + j))) for j in range(n)] + [wire.keepalive()]
    data = b''.join(msgs)
    if segname == 'permsg':
        bounds, pos = [], 0
        for m in msgs:
            pos += len(m)
            bounds.append(pos)
    elif segname == '64k':
        bounds = list(range(65536, len(data), 65536)) + [len(data)]
    else:
        rnd = random.Random(seed)
        bounds, pos = [], 0
        while pos < len(data):
            pos = min(len(data), pos + rnd.choice([1, 7, 19, 23, 28, 29, 500, 4096, 9000, 65536]))
            bounds.append(pos)
    reported, ordered, ka, nots, exc, over, others = 0, True, False, [], 0, False, 0
    pos = 0
    for b in bounds:
        chunk = data[pos:b]
        pos = b
        _, work, ov = M.run(k.deliver, chunk, budget=6000 + 400 * (len(chunk) + 4115))
        over = over or bool(ov)
        o = w.observe()
        for name, payload in o['rep']:
            if name == 'update_received':
                want = '%d.%d.%d.%d/32' % (100, (reported >> 16) & 255, (reported >> 8) & 255, reported & 255)
                msg = payload.get('msg', payload) if isinstance(payload, dict) else {}
                if (msg.get('withdraw') if isinstance(msg, dict) else None) != [want]:
                    ordered = False
                reported += 1
            elif name == 'keepalive_received':
                ka = True
            elif name in CB:
                others += 1
        for d in o['out']:
            if d['type'] == 'NOTIFICATION':
                nots.append([d['code'], d['sub']])
        exc += len(o['errs'])
    return [{'tid': tid, 'i': 1, 'k': 'long', 'n': n, 'reported': reported, 'ordered': ordered, 'ka': ka, 'others': others, 'nots': nots,
             'closed': bool(k.transport.disconnecting), 'exc': exc, 'over': over, 'shape': 'LONG=%d' % n, 'cut': segname}]
