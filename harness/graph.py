"""Transition tours over a TLC state graph (DESIGN.md 2.4)."""
import random
import collections


def edge_class(s, e):
    """Abstract (state class, event) signature of an edge; the quick tier covers each class once."""
    ev = e[0]
    tm = s['tm']
    on = tuple(sorted(t for t in tm if tm[t] != 9999))
    return (s['st'], tuple(c['cs'] for c in s['conns']), s['cur'], s['allow'], s['estab'], on,
            tuple(c['poison']['m'] != '' for c in s['conns']),
            ev['k'], ev['c'], ev['m'], ev['h'], ev['t'])


def bfs_tree(g):
    par = {g.init: None}
    order = [g.init]
    q = collections.deque([g.init])
    while q:
        u = q.popleft()
        for i, e in enumerate(g.edges.get(u, ())):
            v = e[3]
            if v not in par and v in g.states:
                par[v] = (u, i)
                q.append(v)
                order.append(v)
    return par, order


def tree_path(par, v):
    p = []
    while par[v] is not None:
        u, i = par[v]
        p.append((u, i))
        v = u
    p.reverse()
    return p


def plan_tour(g, targets=None, seed=0, max_len=400, bfs_budget=200):
    """Walks from the initial state that together cover `targets` (set of (state, edge index); default all
    edges).  Greedy: prefer an uncovered out-edge, else go to the nearest state that has one, else restart.
    Returns a list of walks, each a list of (state id, edge index)."""
    rnd = random.Random(seed)
    par, order = bfs_tree(g)
    unc = collections.defaultdict(list)
    if targets is None:
        for u in order:
            n = len(g.edges.get(u, ()))
            if n:
                unc[u] = list(range(n))
    else:
        for (u, i) in targets:
            if u in par:
                unc[u].append(i)
    for u in unc:
        rnd.shuffle(unc[u])
    remaining = sum(len(v) for v in unc.values())
    pend = collections.deque(u for u in order if unc.get(u))
    walks = []

    def local(src):
        seen = {src: None}
        q = collections.deque([src])
        n = 0
        while q and n < bfs_budget:
            u = q.popleft()
            n += 1
            if unc.get(u):
                p = []
                x = u
                while seen[x] is not None:
                    px, pi = seen[x]
                    p.append((px, pi))
                    x = px
                p.reverse()
                return p
            for i, e in enumerate(g.edges.get(u, ())):
                v = e[3]
                if v not in seen and v in g.states and g.edges.get(v):
                    seen[v] = (u, i)
                    q.append(v)
        return None

    while remaining:
        while pend and not unc.get(pend[0]):
            pend.popleft()
        if not pend:
            break
        target = pend[0]
        walk = list(tree_path(par, target))
        u = target
        while len(walk) < max_len:
            if unc.get(u):
                i = unc[u].pop()
                remaining -= 1
                walk.append((u, i))
                u = g.edges[u][i][3]
                if u not in g.states or not g.edges.get(u):
                    break
                continue
            p = local(u)
            if not p:
                break
            walk.extend(p)
            u = g.edges[p[-1][0]][p[-1][1]][3]
        walks.append(walk)
    return walks


def class_targets(g, seed=0, per_class=1):
    """One (or per_class) representative edge per abstract class, chosen pseudo-randomly by seed."""
    rnd = random.Random(seed)
    par, order = bfs_tree(g)
    buckets = collections.defaultdict(list)
    for u in order:
        s = g.states[u]
        for i, e in enumerate(g.edges.get(u, ())):
            buckets[edge_class(s, e)].append((u, i))
    t = []
    for k in sorted(buckets, key=repr):
        b = buckets[k]
        if len(b) <= per_class:
            t.extend(b)
        else:
            t.extend(rnd.sample(b, per_class))
    return t, len(buckets)


def random_walks(g, n, depth, seed=0):
    rnd = random.Random(seed)
    walks = []
    for _ in range(n):
        u = g.init
        w = []
        for _ in range(depth):
            es = g.edges.get(u)
            if not es:
                break
            i = rnd.randrange(len(es))
            w.append((u, i))
            u = es[i][3]
            if u not in g.states:
                break
        walks.append(w)
    return walks


def all_paths(g, depth, same=None):
    """Every path of length <= depth from the initial state; `same(ev)` gives a key that must be constant along the
    path for the events where it is not None (e.g. one direction and family)."""
    out = []

    def rec(u, path, key):
        if path:
            out.append(list(path))
        if len(path) >= depth:
            return
        for i, e in enumerate(g.edges.get(u, ())):
            k = same(e[0]) if same else None
            if k is not None and key is not None and k != key:
                continue
            v = e[3]
            if v not in g.states:
                continue
            path.append((u, i))
            rec(v, path, key if k is None else k)
            path.pop()
    rec(g.init, [], None)
    return out
