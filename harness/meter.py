"""Deterministic work meter (DESIGN.md 2.5): counts executed source lines of files under <repo>/yabgp with
sys.monitoring (Python 3.12) and aborts a call that exceeds a budget by raising a BaseException subclass
(yabgp catches Exception everywhere).  No wall-clock timing, hence no flakiness."""
import os
import sys

REPO = os.environ.get('VERIF_REPO', '/repo')
PREFIX = os.path.join(REPO, 'yabgp') + os.sep
TOOL = 3


class Budget(BaseException):
    pass


class Meter(object):
    def __init__(self):
        self.count = 0
        self.limit = None
        self.on = False
        m = sys.monitoring
        try:
            m.use_tool_id(TOOL, 'verif-meter')
        except ValueError:
            pass
        m.register_callback(TOOL, m.events.LINE, self._line)

    def _line(self, code, lineno):
        if not code.co_filename.startswith(PREFIX):
            return sys.monitoring.DISABLE
        self.count += 1
        if self.limit is not None and self.count > self.limit:
            self.limit = None
            raise Budget()

    def run(self, f, *a, budget=None):
        """-> (result or None, lines executed, exceeded?)"""
        m = sys.monitoring
        self.count = 0
        self.limit = budget
        m.set_events(TOOL, m.events.LINE)
        try:
            try:
                r = f(*a)
                return r, self.count, False
            except Budget:
                return None, self.count, True
        finally:
            m.set_events(TOOL, 0)
            self.limit = None


METER = None


def meter():
    global METER
    if METER is None:
        METER = Meter()
    return METER
