"""Session-family pipeline (C01-C03, C05, C10, C12, C13, C18): TLC graph of spec/Session.tla -> tours ->
replay on the real agent (drift detection + trace recording) -> TLC validation of the recorded traces against
spec/TraceProps.tla -> verdict.  See DESIGN.md sections 2 and 4."""
import os
import sys
import json
import time
import shutil
import tempfile
import multiprocessing as mp

HERE = os.path.dirname(os.path.abspath(__file__))
sys.path.insert(0, HERE)
import tlc            # noqa: E402
import graph          # noqa: E402
import common         # noqa: E402

ALL_MSGS = ["OPEN", "OPENBADVER", "OPENBADAS", "OPENSHORT", "KA", "KABODY", "UPD", "UPDBAD", "NOTIFVER", "NOTIF",
            "NOTIFSHORT", "RR", "RRBAD", "BADMARKER", "BADLEN", "BADLENSMALL", "BADTYPE"]
BASE = dict(CRT=2, HOLDCFG=60, IDLEHOLD=2, LARGEHOLD=24, TCPTO=3, MAXLIVE=2, PEERHOLDS=[0, 1, 30, 90],
            TICKNUM=10, TICKDEN=1, CNTCAP=0, MSGS=ALL_MSGS, RESTS=[])


def consts(**kw):
    c = dict(BASE)
    c.update(kw)
    return c


def tla_val(v):
    if isinstance(v, (list, tuple, set)):
        return '{' + ', '.join(tla_val(x) for x in v) + '}'
    if isinstance(v, str):
        return '"%s"' % v
    return str(v)


def cfg_text(c, constraint='Bound', extra=''):
    lines = ['CONSTANTS'] + ['  %s = %s' % (k, tla_val(v)) for k, v in sorted(c.items())]
    lines += ['INIT Init', 'NEXT Next', 'VIEW View', 'CONSTRAINT ' + constraint, 'CHECK_DEADLOCK FALSE', extra]
    return '\n'.join(lines) + '\n'


def world_cfg(c, extra=None):
    """Model constants (ticks) -> agent configuration (seconds)."""
    tick = c['TICKNUM'] / c['TICKDEN']
    w = dict(tick=tick, crt=int(round(c['CRT'] * tick)), hold=c['HOLDCFG'], idle=int(round(c['IDLEHOLD'] * tick)))
    w.update(extra or {})
    return w


def cfg_line(c, wcfg):
    las = wcfg.get('las', 65001)
    return {'hold': c['HOLDCFG'], 'tnum': c['TICKNUM'], 'tden': c['TICKDEN'], 'las_hi': las >> 16, 'las_lo': las & 0xffff,
            'caps': wcfg.get('capcodes', [1, 2, 128, 65, 70]), 'crt': c['CRT'], 'idle': c['IDLEHOLD']}


# ----------------------------------------------------------------------------- workers
_G = None
_JOB = None


def _work(args):
    k, items, outdir = args
    import replay_session as R
    g, job = _G, _JOB
    path = os.path.join(outdir, 'part_%04d.ndjson' % k)
    drifts, steps, cov = [], 0, 0
    classes = set()
    with open(path, 'w') as fh:
        for tid, walk in items:
            lines, drift, n, covered = R.replay_walk(g, walk, tid, job['wcfg'], job['cfgline'], coop=job.get('coop', False))
            for ln in lines:
                fh.write(R.dumps(ln) + '\n')
            steps += n
            cov += len(covered)
            for (u, i) in covered:
                classes.add(graph.edge_class(g.states[u], g.edges[u][i]))
            if drift:
                drifts.append(drift)
                if len(drifts) <= 3:        # bounded exploration of what the real code does after the drift point
                    for lines in R.explore_from(drift['events'], job['wcfg'], job['cfgline'], 10000000 + tid * 1000):
                        for ln in lines:
                            fh.write(R.dumps(ln) + '\n')
                        steps += len(lines) - 1
                drift.pop('events', None)
    return path, drifts, steps, cov, len(classes)


def replay_walks(g, walks, wcfg, cfgline, outdir, procs=16, tid0=0, coop=False):
    global _G, _JOB
    _G, _JOB = g, {'wcfg': wcfg, 'cfgline': cfgline, 'coop': coop}
    items = [(tid0 + i, w) for i, w in enumerate(walks)]
    nchunks = max(1, min(len(items), procs * 4))
    chunks = [items[i::nchunks] for i in range(nchunks)]
    ctx = mp.get_context('fork')
    with ctx.Pool(procs) as pool:
        res = pool.map(_work, [(k, ch, outdir) for k, ch in enumerate(chunks)])
    parts = [r[0] for r in res]
    drifts = [d for r in res for d in r[1]]
    return parts, drifts, sum(r[2] for r in res), sum(r[3] for r in res)


# ----------------------------------------------------------------------------- trace validation
def validate(ndjson, props, timeout=3600):
    """TLC over TraceProps.tla.  -> (list of rejection dicts, stats).  Raises TlcError on machinery trouble."""
    cfg = 'CONSTANTS PROPS = %s\nINIT Init\nNEXT Next\nPOSTCONDITION AllConsumed\nCHECK_DEADLOCK FALSE\n' % tla_val(sorted(props))
    st, text = tlc.run('TraceProps', cfg, workers=1, timeout=timeout, env={'TRACE_FILE': ndjson})
    rej = list(tlc.printed(text, 'R'))
    n = sum(1 for _ in open(ndjson))
    if 'AllConsumed' in text and 'violated' in text or st.get('distinct') != n + 1:
        raise tlc.TlcError('trace validation did not consume every line (%s of %d):\n%s' % (st.get('distinct'), n, text[-3000:]))
    return rej, st


def load_lines(ndjson, tid):
    out = []
    with open(ndjson) as fh:
        for line in fh:
            if line.startswith('{"tid":%d,' % tid):
                out.append(json.loads(line))
    return out


def judge(prop, rejections, ndjson, job, verdict):
    """Turn TraceProps rejections of this property into KNOWN-FINDING / VIOLATION lines."""
    mine = [r for r in rejections if r['clause'].startswith(prop + '.')]
    cache = {}
    for r in mine:
        sig = {'pst': r['pst'], 'cls': r['cls']}
        if common.match_known(prop, r['clause'], sig) is None and r['tid'] not in cache and len(cache) < 20:
            cache[r['tid']] = load_lines(ndjson, r['tid'])
        lines = cache.get(r['tid'], [])
        payload = {'property': prop, 'clause': r['clause'], 'signature': sig, 'kind': 'session-trace',
                   'wcfg': job['wcfg'], 'cfgline': job['cfgline'], 'rejected_line': r['i'], 'extra': r.get('extra'),
                   'events': [{k: ln.get(k) for k in ('k', 'c', 'm', 'h', 't', 'hex', 'cls') if k in ln} for ln in lines if ln.get('k') != 'cfg' and ln['i'] <= r['i']],
                   'lines': [ln for ln in lines if ln.get('k') == 'cfg' or ln['i'] <= r['i']][-6:]}
        verdict.reject(r['clause'], sig, payload, 'trace=%d line=%d extra=%s' % (r['tid'], r['i'], json.dumps(r.get('extra'))))
    return len(mine)


# ----------------------------------------------------------------------------- one full run
def run_config(name, c, constraint, tier, seed, props, workdir, wextra=None, per_class=1, nrandom=0, depth=60,
               full_tour=False):
    """Graph -> tour -> replay -> traces.  Returns dict with paths and statistics."""
    t0 = time.perf_counter()
    g = tlc.dump_graph('Session', cfg_text(c, constraint))
    t_graph = time.perf_counter() - t0
    t0 = time.perf_counter()
    if full_tour:
        targets, ncls = None, len(graph.class_targets(g, seed)[0])
    else:
        targets, ncls = graph.class_targets(g, seed, per_class)
    walks = graph.plan_tour(g, targets, seed=seed)
    if nrandom:
        walks += graph.random_walks(g, nrandom, depth, seed)
    t_plan = time.perf_counter() - t0
    wcfg = world_cfg(c, wextra)
    cl = cfg_line(c, wcfg)
    t0 = time.perf_counter()
    sub = os.path.join(workdir, name)
    os.makedirs(sub, exist_ok=True)
    parts, drifts, steps, cov = replay_walks(g, walks, wcfg, cl, sub, coop=('C02' in props))
    nd = os.path.join(workdir, name + '.ndjson')
    with open(nd, 'w') as out:
        for p in parts:
            with open(p) as fh:
                shutil.copyfileobj(fh, out)
            os.remove(p)
    t_replay = time.perf_counter() - t0
    return {'name': name, 'graph': g, 'ndjson': nd, 'walks': len(walks), 'steps': steps, 'covered_edges': cov,
            'classes': ncls, 'drifts': drifts, 'wcfg': wcfg, 'cfgline': cl, 'consts': c,
            't_graph': round(t_graph, 1), 't_plan': round(t_plan, 1), 't_replay': round(t_replay, 1)}


# ----------------------------------------------------------------------------- scripted / fuzz scenarios
def scen_cfgline(wcfg):
    las = wcfg.get('las', 65001)
    caps = wcfg.get('caps')
    allowed = [1]
    names = {'route_refresh': 2, 'cisco_route_refresh': 128, 'enhanced_route_refresh': 70, 'graceful_restart': 64,
             'cisco_multi_session': 131}
    for n, code in names.items():
        if caps is None or n in caps:
            allowed.append(code)
    if wcfg.get('four_bytes_as', True) or las > 65535:
        allowed.append(65)
    if wcfg.get('add_path'):
        allowed.append(69)
    if set(wcfg.get('afi_safi', ())) & {'vpnv4', 'vpnv6'}:
        allowed.append(5)
    tick = wcfg.get('tick', 10.0)
    return {'hold': wcfg.get('hold', 60), 'tnum': wcfg.get('tnum', int(tick)), 'tden': wcfg.get('tden', 1), 'las_hi': las >> 16, 'las_lo': las & 0xffff,
            'caps': sorted(allowed), 'crt': int(wcfg.get('crt', 20) / tick), 'idle': int(wcfg.get('idle', 20) / tick)}


def _scen_work(args):
    import scenarios
    k, jobs, outdir = args
    return scenarios.run_jobs((k, jobs, outdir, scen_cfgline))


def run_scenarios(kind, tier, seed, workdir, procs=16):
    """C05 / C10 scenario drivers -> ndjson of recorded traces (tids from 20,000,000)."""
    if kind == 'C05':
        jobs = _c05_jobs(tier, seed)
    elif kind == 'C16':
        jobs = _in_child(_mk_c16, tier, seed)
    elif kind == 'C03':
        jobs = _in_child(_mk_c03, tier, seed)
    elif kind == 'C02':
        jobs = _in_child(_mk_c02, tier, seed)
    elif kind == 'C12':
        jobs = _in_child(_mk_c12, tier, seed)
    elif kind == 'C12S':
        # for the statistics (C18): without the runs in which the handler's on_connection_lost callback fails - the agent
        # then never learns that the connection is gone, and "the current connection" of the property does not exist
        jobs = [j for j in _in_child(_mk_c12, tier, seed) if 'on_connection_lost' not in (j[1].get('handler_fail') or {})]
    elif kind == 'C01':
        jobs = _in_child(_mk_c01, tier, seed)
    else:
        jobs = _c10_jobs(tier, seed)
    items = [(20000000 + i, j) for i, j in enumerate(jobs)]
    chunks = [items[i::procs * 4] for i in range(procs * 4)]
    with mp.get_context('fork').Pool(procs) as pool:
        res = pool.map(_scen_work, [(k, ch, workdir) for k, ch in enumerate(chunks) if ch])
    nd = os.path.join(workdir, 'scen_%s.ndjson' % kind)
    with open(nd, 'w') as out:
        for p, n in res:
            with open(p) as fh:
                shutil.copyfileobj(fh, out)
            os.remove(p)
    return nd, len(items)


def _in_child(fn, *a):
    """job lists are built in a child process (the scenario module imports the world, which patches time)"""
    ctx = mp.get_context('fork')
    with ctx.Pool(1) as pool:
        return pool.apply(fn, a)


def _mk_c05(tier, seed):
    import scenarios
    return scenarios.c05_jobs(tier, seed)


def _mk_c10(tier, seed):
    import scenarios
    wcfg = dict(tick=10.0, crt=20, idle=20, hold=90, las=65001, ras=65002)
    jobs = []
    for cls, data in scenarios.fuzz_inputs(scenarios.world.REPO, tier, seed):
        for state in ('OPENSENT', 'OPENCONFIRM', 'ESTABLISHED'):
            if tier == 'quick' and state != ('OPENSENT' if cls == 'FUZZ_OPEN' else 'ESTABLISHED') and (len(jobs) % 3):
                continue
            jobs.append(('c10', wcfg, state, cls, data))
    for data in scenarios.HOSTILE_LS:
        jobs.append(('c10', wcfg, 'ESTABLISHED', 'FUZZ_UPD', data))
        jobs.append(('c10', wcfg, 'ESTABLISHED', 'FUZZ_UPD_REP', data))
    return jobs


def _mk_c16(tier, seed):
    import scenarios
    return scenarios.c16_jobs(tier, seed) + scenarios.c18q_jobs(tier, seed)


def _mk_c01(tier, seed):
    import scenarios
    return scenarios.c01n_jobs(tier, seed) + scenarios.c01u_jobs(tier, seed) + scenarios.c01q_jobs(tier, seed)


def _mk_c12(tier, seed):
    import scenarios
    return scenarios.c12md5_jobs(tier, seed) + scenarios.c18q_jobs(tier, seed) + scenarios.c13u_jobs(tier, seed)


def _mk_c02(tier, seed):
    import scenarios
    return scenarios.c02r_jobs(tier, seed)


def _mk_c03(tier, seed):
    import scenarios
    return scenarios.c03j_jobs(tier, seed)


def _c05_jobs(tier, seed):
    return _in_child(_mk_c05, tier, seed)


def _c10_jobs(tier, seed):
    return _in_child(_mk_c10, tier, seed)
