"""Running TLC and getting behaviours out of it (DESIGN.md 2.4)."""
import os
import re
import sys
import json
import time
import shutil
import hashlib
import pickle
import subprocess
import tempfile

VERIF = os.path.dirname(os.path.dirname(os.path.abspath(__file__)))
SPEC = os.path.join(VERIF, 'spec')
CACHE = os.path.join(VERIF, '.cache')
JAR = '/opt/veriftools/tla/tla2tools.jar'


class TlcError(Exception):
    pass


def _sha(*paths_and_strings):
    h = hashlib.sha256()
    for p in paths_and_strings:
        if os.path.exists(p):
            h.update(open(p, 'rb').read())
        else:
            h.update(p.encode())
    return h.hexdigest()[:20]


def spec_deps(module):
    """All spec/*.tla files a module (transitively) EXTENDS/INSTANCEs - for cache keys."""
    seen, todo = [], [module]
    while todo:
        m = todo.pop()
        p = os.path.join(SPEC, m + '.tla')
        if m in seen or not os.path.exists(p):
            continue
        seen.append(m)
        txt = open(p).read()
        for mm in re.findall(r'EXTENDS\s+([^\n]+)', txt):
            todo += [x.strip() for x in mm.split(',')]
        todo += re.findall(r'INSTANCE\s+(\w+)', txt)
    return [os.path.join(SPEC, m + '.tla') for m in sorted(seen)]


def spec_tag(module):
    """short hash of the specification files a module depends on (part of cache file names, so that entries of an
    older specification can be recognised and removed)"""
    return _sha(*spec_deps(module))[:8]


def prune(prefix, tag):
    """remove cache entries `<prefix>_<othertag>_*` left behind by an older version of the specification"""
    if not os.path.isdir(CACHE):
        return
    pat = re.compile(r'^%s_([0-9a-f]{8})_[0-9a-f]+\.\w+$' % re.escape(prefix))
    for f in os.listdir(CACHE):
        m = pat.match(f)
        if m and m.group(1) != tag:
            try:
                os.remove(os.path.join(CACHE, f))
            except OSError:
                pass


def parse_stats(text):
    st = {}
    m = re.search(r'(\d+) states generated, (\d+) distinct states found, (\d+) states left', text)
    if m:
        st['generated'], st['distinct'], st['left'] = int(m.group(1)), int(m.group(2)), int(m.group(3))
    m = re.search(r'depth of the complete state graph search is (\d+)', text)
    if m:
        st['depth'] = int(m.group(1))
    st['completed'] = 'Model checking completed' in text
    st['violated'] = bool(re.search(r'Error: (Invariant|Action property|Temporal|Deadlock|The postcondition)', text)
                          or 'is violated' in text)
    return st


def run(module, cfg_text, workers=16, timeout=1800, env=None, extra_args=(), outfile=None, simulate=None,
        java_opts=None, keep_dir=False):
    """Run TLC on spec/<module>.tla with the given cfg text.  Returns (stats, output text or path)."""
    work = tempfile.mkdtemp(prefix='vtlc_')
    try:
        for f in os.listdir(SPEC):
            if f.endswith('.tla'):
                shutil.copy(os.path.join(SPEC, f), work)
        with open(os.path.join(work, 'run.cfg'), 'w') as fh:
            fh.write(cfg_text)
        cmd = ['java', '-XX:+UseParallelGC', '-Xmx24g', '-Xss64m'] + list(java_opts or []) + \
              ['-cp', JAR + ':/opt/veriftools/tla/CommunityModules-deps.jar', 'tlc2.TLC']
        # (the installed `tlc` wrapper runs the same class path; java is called directly for the stack size: the wire modules
        #  use recursive operators over sequences of a few hundred elements - 255-AS segments, 100-operator flowspec rules)
        cmd = ['java', '-XX:+UseParallelGC', '-Xss1g', '-cp', JAR + ':/opt/veriftools/tla/CommunityModules-deps.jar', 'tlc2.TLC']
        cmd += ['-workers', str(workers), '-metadir', os.path.join(work, 'meta'), '-noGenerateSpecTE',
                '-config', 'run.cfg'] + list(extra_args)
        if simulate:
            cmd += ['-simulate', simulate]
        cmd += [module + '.tla']
        e = dict(os.environ)
        # the wire modules use recursive operators over sequences of a few hundred elements (255-AS segments, 80-operator
        # flowspec rules): give the JVM threads a deep stack
        if java_opts:
            e['JAVA_TOOL_OPTIONS'] = ' '.join(java_opts)
        e.update(env or {})
        t0 = time.time()
        if outfile:
            with open(outfile, 'w') as fh:
                p = subprocess.run(cmd, cwd=work, stdout=fh, stderr=subprocess.STDOUT, env=e, timeout=timeout)
            tail = subprocess.run(['tail', '-n', '40', outfile], capture_output=True, text=True).stdout
            head = subprocess.run(['head', '-n', '60', outfile], capture_output=True, text=True).stdout
            text = head + tail
        else:
            p = subprocess.run(cmd, cwd=work, stdout=subprocess.PIPE, stderr=subprocess.STDOUT, env=e,
                               timeout=timeout, text=True)
            text = p.stdout
        st = parse_stats(text)
        st['wall_s'] = round(time.time() - t0, 2)
        st['rc'] = p.returncode
        if p.returncode not in (0, 12, 13) and not st.get('completed') and not simulate:
            # 12/13: safety/liveness violation exit codes
            if 'Error:' in text and not st['violated']:
                raise TlcError('TLC failed (rc=%d):\n%s' % (p.returncode, text[-3000:]))
        return st, (outfile if outfile else text)
    except subprocess.TimeoutExpired:
        raise TlcError('TLC timed out after %ss on %s' % (timeout, module))
    finally:
        if not keep_dir:
            shutil.rmtree(work, ignore_errors=True)


def printed(text_or_path, tag):
    """Yield the JSON payload of every PrintT("@<tag> " \\o ToJson(...)) line."""
    pre = '"@' + tag + ' '
    fh = open(text_or_path) if os.path.exists(text_or_path) else text_or_path.splitlines()
    for line in fh:
        if line.startswith(pre):
            s = json.loads(line.rstrip('\n'))
            yield json.loads(s[len(tag) + 2:])


class Graph(object):
    """State graph dumped by TLC: states[id] = projection, edges[id] = [(ev, out, rep, dst)]."""

    def __init__(self):
        self.states = {}
        self.edges = {}
        self.init = None
        self.stats = {}
        self.nedges = 0


def dump_graph(module, cfg_text, workers=16, timeout=3600, use_cache=True, raw=False):
    key = _sha(cfg_text, module + str(raw), *spec_deps(module))
    os.makedirs(CACHE, exist_ok=True)
    tag = spec_tag(module)
    cp = os.path.join(CACHE, 'graph_%s_%s_%s.pkl' % (module, tag, key))
    if use_cache and os.path.exists(cp):
        with open(cp, 'rb') as fh:
            return pickle.load(fh)
    prune('graph_%s' % module, tag)
    out = os.path.join(CACHE, 'graph_%s_%s_%s.txt' % (module, tag, key))
    cfg = cfg_text + '\nACTION_CONSTRAINT EmitEdge\nINVARIANT DumpState\n'
    st, _ = run(module, cfg, workers=workers, timeout=timeout, outfile=out)
    if not st.get('completed'):
        raise TlcError('graph dump of %s did not complete: %s\n%s' % (module, st, open(out).read()[-2000:]))
    g = Graph()
    g.stats = st
    pe, ps = '"@E ', '"@S '
    with open(out) as fh:
        for line in fh:
            if line.startswith(pe):
                u, ev, o, _, v = json.loads(json.loads(line)[3:])
                if raw:
                    g.edges.setdefault(tuple(u), []).append((ev, o, None, tuple(v)))
                else:
                    g.edges.setdefault(tuple(u), []).append((ev, o['out'], o['rep'], tuple(v), o['att'], o['cl']))
                g.nedges += 1
            elif line.startswith(ps):
                u, proj = json.loads(json.loads(line)[3:])
                u = tuple(u)
                g.states[u] = proj
                if g.init is None and not proj.get('booted', True):
                    g.init = u
    os.remove(out)
    for u in g.states:
        g.edges.setdefault(u, [])
    with open(cp, 'wb') as fh:
        pickle.dump(g, fh, protocol=pickle.HIGHEST_PROTOCOL)
    return g
