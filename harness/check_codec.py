"""Codec checks driven by the wire modules (Layer W): C06, C08, C09 (UPDATE part).  DESIGN.md 3.7, 5."""
import os
import sys
import json
import shutil
import tempfile
import multiprocessing as mp

HERE = os.path.dirname(os.path.abspath(__file__))
sys.path.insert(0, HERE)
import tlc            # noqa: E402
import common         # noqa: E402
from session import tla_val   # noqa: E402

ASSUME = ['the value -> yabgp dict rendering of harness/wire_map.py (documented input/output forms of Update.construct / Update.parse)',
          'TLC/SANY, CommunityModules Json/IOUtils', 'bounded value pools of spec/WireUpdate.tla (boundary values per field); not a proof about the Python code']
FAMILIES = {'C06': ['upd', 'updspell'], 'C08': ['upd', 'updap', 'openrt', 'notif', 'rr', 'ka', 'mp_ipv6', 'mp_lu4', 'mp_lu6', 'mp_vpn4', 'mp_vpn6', 'mp_evpn', 'mp_fs', 'enc'], 'C09': ['upd', 'updvar', 'updap', 'cor', 'mpdec', 'fsdec'],
            'C14': ['open', 'openrt', 'notif', 'rr', 'ka'], 'C17': ['comm'],
            'C07': ['mp_ipv6', 'mp_lu4', 'mp_lu6', 'mp_vpn4', 'mp_vpn6', 'mp_evpn', 'mp_fs']}
# thorough tier: the wide pools (every pair of attribute values, every mandatory x optional value, ...)
THOROUGH_EXTRA = {'C06': ['updwide'], 'C08': ['updwide'], 'C09': ['updwide', 'updvarwide']}
CACHE = os.path.join(os.path.dirname(HERE), '.cache')


def gen_vectors(family):
    """TLC enumerates one vector family of WireGen.tla (cached: depends on the spec only)."""
    cfg = 'CONSTANTS FAMILY = "%s"\nINIT Init\nNEXT Next\nINVARIANT RefWellFormed\nINVARIANT Emit\nCHECK_DEADLOCK FALSE\n' % family
    key = tlc._sha(cfg, *tlc.spec_deps('WireGen'))
    os.makedirs(CACHE, exist_ok=True)
    tag = tlc.spec_tag('WireGen')
    cp = os.path.join(CACHE, 'vec_%s_%s_%s.json' % (family, tag, key))
    if os.path.exists(cp):
        with open(cp) as fh:
            return json.load(fh)
    tlc.prune('vec_%s' % family, tag)
    st, text = tlc.run('WireGen', cfg, timeout=3000)
    if not st.get('completed') or st.get('violated'):
        raise tlc.TlcError('WireGen(%s): a reference encoding is rejected by the walker, or TLC failed:\n%s' % (family, text[-2500:]))
    vecs = list(tlc.printed(text, 'W'))
    out = {'stats': st, 'vecs': vecs}
    with open(cp, 'w') as fh:
        json.dump(out, fh)
    return out


def _work(args):
    import codec_worker
    return codec_worker.work(args)


def _repass(args):
    import codec_worker
    return codec_worker.repass(args)


def _work_comm(args):
    import comm_worker
    return comm_worker.work(args)


def validate(ndjson, props):
    cfg = 'CONSTANTS PROPS = %s\nINIT Init\nNEXT Next\nPOSTCONDITION AllConsumed\nCHECK_DEADLOCK FALSE\n' % tla_val(sorted(props))
    st, text = tlc.run('TraceWire', cfg, workers=1, timeout=7200, env={'TRACE_FILE': ndjson})
    n = sum(1 for _ in open(ndjson))
    if st.get('distinct') != n + 1:
        raise tlc.TlcError('TraceWire did not consume every line (%s of %d):\n%s' % (st.get('distinct'), n, text[-3000:]))
    return list(tlc.printed(text, 'R')), st


def run(prop, tier, seed):
    v = common.Verdict(prop)
    work = tempfile.mkdtemp(prefix='vcodec_')
    try:
        vecs, gstats = [], {}
        for fam in FAMILIES[prop] + (THOROUGH_EXTRA.get(prop, []) if tier == 'thorough' else []):
            g = gen_vectors(fam)
            gstats[fam] = g['stats']
            vecs += g['vecs']
        items = list(enumerate(vecs))
        procs = 16
        chunks = [items[i::procs] for i in range(procs)]
        with mp.get_context('fork').Pool(procs) as pool:
            res = pool.map(_work_comm if prop == 'C17' else _work, [(k, ch, work) for k, ch in enumerate(chunks) if ch])
        nd = os.path.join(work, 'all.ndjson')
        with open(nd, 'w') as out:
            for p, n in res:
                with open(p) as fh:
                    shutil.copyfileobj(fh, out)
                os.remove(p)
        if prop != 'C17':
            with mp.get_context('fork').Pool(1) as pool:
                pool.apply(_repass, ((items, nd),))
        rej, vst = validate(nd, {prop})
        byid = {}
        want = set(r['tid'] for r in rej)
        if want:
            for line in open(nd):
                d = json.loads(line)
                if d['id'] in want:
                    byid[d['id']] = d
        for r in rej:
            d = byid.get(r['tid'], {})
            sig = {'kind': r['pst'], 'cls': r['cls']}
            payload = {'property': prop, 'kind': 'codec-vector', 'clause': r['clause'], 'signature': sig, 'vector': vecs[r['tid'] % 50000000],
                       'result': {k: d.get(k) for k in ('raised', 'none', 'rt_ok', 'dec_ok', 'dec_err', 'diff', 'ddiff')},
                       'impl_hex': bytes(d.get('impl', d.get('bin', []))).hex(), 'ref_hex': bytes(d.get('ref', [])).hex(), 'text': d.get('text')}
            v.reject(r['clause'], sig, payload, ((d.get('ddiff') if r['clause'].endswith('decode') else d.get('diff')) or '')[:200])
        # binding self-test: flip one octet of a recorded encoding / one flag -> must be rejected
        ok = False
        for line in open(nd):
            d = json.loads(line)
            if d['kind'] == 'comm' and d['accepted'] and d['text2_same']:
                bad = dict(d)
                bad['ref'] = list(d['ref'])
                bad['ref'][-1] = (bad['ref'][-1] + 1) % 256
                p = os.path.join(work, 'self.ndjson')
                with open(p, 'w') as o2:
                    o2.write(json.dumps(bad) + '\n')
                rj, _ = validate(p, {prop})
                ok = any(x['clause'].startswith(prop) for x in rj)
                break
            if d['kind'] in ('upd', 'notif', 'mp') and d['impl'] and d['rt_ok'] and d['dec_ok']:
                bad = dict(d)
                if prop in ('C06', 'C14', 'C07'):
                    bad['rt_ok'] = False
                elif prop == 'C08':
                    bad['impl'] = list(d['impl'])
                    bad['impl'][17] = (bad['impl'][17] + 1) % 256
                else:
                    bad['dec_ok'] = False
                p = os.path.join(work, 'self.ndjson')
                with open(p, 'w') as o2:
                    o2.write(json.dumps(bad) + '\n')
                rj, _ = validate(p, {prop})
                ok = any(x['clause'].startswith(prop) for x in rj)
                break
        if not ok:
            common.machinery_failure('%s binding self-test failed' % prop)
        kinds = {}
        for x in vecs:
            kinds[x['kind']] = kinds.get(x['kind'], 0) + 1
        classes = set()
        for line in open(nd):
            d = json.loads(line)
            classes.add((d['kind'], d['cls'], d['asn4'], tuple(d['ref'][:2]) if d['kind'] == 'comm' else ()))
        with open(nd) as fh:
            smp = json.loads(next(fh))
        cov = {'evaluations': len(vecs), 'distinct_nontrivial': len(classes),
               'rule': 'vectors = every value of the bounded pools of spec/WireUpdate.tla (all prefix lengths 0..32 x 2 host patterns announced and withdrawn, '
                       'ordered pairs/triples of 6 boundary prefixes, announce+withdraw, every attribute value alone incl. 32-bit boundary values, all AS_PATH segment '
                       'types and lengths across the 255-octet boundary in both AS modes, every pair of optional attribute kinds, all together), enumerated by TLC; '
                       'C09 adds every legal variant (extended length, dirty trailing bits, add-path ids, reversed/rotated attribute order, AS4_PATH/AS4_AGGREGATOR, '
                       'unknown attributes) and 15 single-field corruptions; distinct = distinct (kind, attribute-kind set, list sizes, AS mode) classes',
               'samples': [{'vector': vecs[smp['id']], 'result': {k: smp[k] for k in smp if k not in ('ref', 'impl')}, 'impl_hex': bytes(smp.get('impl', smp.get('bin', []))).hex()}],
               'vectors_by_kind': kinds, 'tlc_generation': gstats, 'lines_validated_by_tlc': vst.get('distinct', 1) - 1, 'rejected': len(rej),
               'binding_selftest': {'rejected_as_required': True}, 'exhaustive': True}
        rc = v.finish()
        common.write_evidence(prop, tier, 'exploration', cov, ASSUME, violations=len(v.violations))
        return rc
    finally:
        shutil.rmtree(work, ignore_errors=True)


def replay_file(prop, path):
    with open(path) as fh:
        p = json.load(fh)
    work = tempfile.mkdtemp(prefix='vcodec_')
    try:
        import subprocess
        code = ('import sys, json; sys.path.insert(0, %r); import codec_worker as W\n'
                'p = json.load(open(%r)); open(%r, "w").write(json.dumps(W.run_update_vector(0, p["vector"])) + "\\n")\n') % (HERE, path, os.path.join(work, 'r.ndjson'))
        subprocess.run([common.PY, '-c', code], check=True)
        rej, _ = validate(os.path.join(work, 'r.ndjson'), {prop})
        v = common.Verdict(prop)
        for r in rej:
            v.reject(r['clause'], {'kind': r['pst'], 'cls': r['cls']}, p, 'replayed')
        return v.finish()
    finally:
        shutil.rmtree(work, ignore_errors=True)
