"""setup step: build the caches that depend on the specification only (TLC vector families, state graphs), so that
the first check after a fresh restore does not pay for them.  Nothing here looks at /repo."""
import os
import sys
HERE = os.path.dirname(os.path.abspath(__file__))
sys.path.insert(0, HERE)
import check_codec
import check_decoders
import session as S
import tlc

for fams in check_codec.FAMILIES.values():
    for f in fams:
        check_codec.gen_vectors(f)
check_decoders.gen('lsgrid', 1)
check_decoders.gen('sidgrid', 1)
for _f in ('capgrid', 'attrgrid', 'mpgrid', 'nestgrid', 'fslen', 'lsnlri', 'deepgrid', 'textgrid'):
    check_decoders.gen(_f, 1)
check_decoders.gen("short", 2)
check_codec.gen_vectors("elems")
tlc.dump_graph('Session', S.cfg_text(S.consts(), 'Bound'))
print('spec caches ready')
