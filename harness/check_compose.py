"""C15: list decoders are compositional; attribute order is irrelevant (DESIGN.md 5 C15)."""
import os
import sys
import json
import random
import shutil
import struct
import itertools
import tempfile
import multiprocessing as mp

HERE = os.path.dirname(os.path.abspath(__file__))
sys.path.insert(0, HERE)
import tlc            # noqa: E402
import common         # noqa: E402
import check_codec    # noqa: E402

PROP = 'C15'
ASSUME = ['element pools: TLC-enumerated single elements of every width per list kind (spec/WireGen.tla family "elems"), BGP-LS / Prefix-SID TLVs from the TLV grid of '
          'spec/WireTlv.tla and from the bytes literals of the unit tests (those the real decoder accepts as exactly one element)',
          'the oracle is relational (decode(a||b) = decode(a) ++ decode(b)), so the value decoders that are not transcribed into TLA+ are covered too',
          'TLC/SANY, CommunityModules Json/IOUtils']


def _work(args):
    import compose_worker
    return compose_worker.work(args)


def _ls_elements(_):
    """BGP-LS attribute TLVs / Prefix-SID TLVs / BGP-LS NLRIs that decode alone to exactly one element"""
    import compose_worker as C
    import check_decoders
    import scenarios
    out = {'lstlv': [], 'sidtlv': [], 'lsnlri': []}
    grid = check_decoders.gen('lsgrid', 1)['vecs'] + check_decoders.gen('sidgrid', 1)['vecs']
    for ep, hx in grid:
        kind = 'lstlv' if ep.startswith('LinkState') else 'sidtlv'
        b = bytes.fromhex(hx)
        n = struct.unpack('!H', b[2:4])[0] if kind == 'lstlv' else struct.unpack('!H', b[1:3])[0]
        if n + (4 if kind == 'lstlv' else 3) != len(b):
            continue
        try:
            if len(C.decode(kind, [b])) == 1:
                out[kind].append(hx)
        except Exception:
            pass
    # TLVs and NLRIs cut out of the unit tests' byte literals
    for lit in scenarios.test_literals(scenarios.world.REPO):
        for kind, tw in (('lstlv', 2), ('lsnlri', 2)):
            b = lit
            elems = []
            while len(b) >= 4:
                n = struct.unpack('!H', b[2:4])[0]
                if len(b) < 4 + n:
                    elems = []
                    break
                elems.append(b[:4 + n])
                b = b[4 + n:]
            if b:
                elems = []
            for e in elems:
                try:
                    if len(C.decode(kind, [e])) == 1:
                        out[kind].append(e.hex())
                except Exception:
                    pass
    # NLRIs of the descriptor grid of spec/WireTlv.tla (every NLRI type x two protocols x one descriptor of every kind)
    for ep, hx in check_decoders.gen('lsnlri', 1)['vecs']:
        if ep != 'BGPLS.parse':
            continue
        try:
            if len(C.decode('lsnlri', [bytes.fromhex(hx)])) == 1:
                out['lsnlri'].append(hx)
        except Exception:
            pass
    for k in out:
        out[k] = sorted(set(out[k]))
    return out


def _cls(kind, parts, default):
    """input class of a concatenation (the known IPv6 special case gets a class of its own, see known_findings.json)"""
    if kind == 'v6prefix' and len(parts) >= 2 and parts[-1] == '00' and parts[-2] == '00':
        return 'v6prefix:ends-with-two-default-routes'
    return default


def validate(ndjson):
    st, text = tlc.run('TraceCompose', 'INIT Init\nNEXT Next\nPOSTCONDITION AllConsumed\nCHECK_DEADLOCK FALSE\n', workers=1, timeout=7200, env={'TRACE_FILE': ndjson})
    n = sum(1 for _ in open(ndjson))
    if st.get('distinct') != n + 1:
        raise tlc.TlcError('TraceCompose did not consume every line (%s of %d):\n%s' % (st.get('distinct'), n, text[-3000:]))
    return list(tlc.printed(text, 'R')), st


def run(prop, tier, seed):
    v = common.Verdict(PROP)
    work = tempfile.mkdtemp(prefix='vcmp_')
    rnd = random.Random(seed)
    try:
        # theorem on the specification: the wire modules' list formats are compositional
        tst, ttext = tlc.run('WireCompose', 'INIT Init\nNEXT Next\nINVARIANT Compositional\nCHECK_DEADLOCK FALSE\n', timeout=3000)
        if not tst.get('completed') or tst.get('violated'):
            raise tlc.TlcError('WireCompose: compositionality fails on the specification:\n' + ttext[-2000:])
        pools = {}
        for e in check_codec.gen_vectors('elems')['vecs']:
            pools.setdefault(e['list'], []).append(bytes(e['b']).hex())
        with mp.get_context('fork').Pool(1) as pool:
            ls = pool.apply(_ls_elements, (0,))
        pools.update(ls)
        pools['fsrule_un'] = list(pools.get('fsrule', []))       # the same rules through the MP_UNREACH_NLRI decoder
        # sub-TLV lists inside the SRv6 TLVs of the BGP-LS attribute: the SID structure sub-TLV and sub-TLVs of unknown types
        # (every type code is a number like any other: 0, 1, 255, 9999, 65535) with 0..5 value octets
        subs = [struct.pack('!HH', 1252, 4).hex() + v for v in ('20100800', '00000000', 'ffffffff', '28181000')]
        subs += [struct.pack('!HH', t, n).hex() + 'a1b2c3d4e5'[:2 * n] for t in (0, 1, 255, 9999, 65535) for n in (0, 1, 4, 5)]
        pools['srv6loc_sub'] = list(subs)
        pools['srv6endx_sub'] = list(subs)
        # IPv4 prefixes through the decoder of the multiprotocol attributes, and both decoders with add-path identifiers
        # (a different identifier in front of every element)
        v4 = sorted(set(pools.get('v4prefix', [])))
        pools['v4mp'] = list(v4)
        ids = ['00000000', '00000001', '00000007', '00000109', '7fffffff', 'ffffffff', '00010000']
        pools['v4mp_ap'] = [ids[j % len(ids)] + h for j, h in enumerate(v4)]
        pools['v4prefix_ap'] = [ids[(j + 3) % len(ids)] + h for j, h in enumerate(v4)]
        jobs = []
        ident = 0
        reps_n = 6 if tier == 'quick' else 14
        for kind, pool_ in sorted(pools.items()):
            pool_ = sorted(set(pool_))
            if len(pool_) > 400 and tier == 'quick':
                pool_ = rnd.sample(pool_, 400)
            reps = rnd.sample(pool_, min(reps_n, len(pool_)))
            short = min(pool_, key=len)            # the shortest element of the kind is always a representative
            if short not in reps:
                reps.append(short)
            pairs = set()
            for a in pool_:
                for b in reps:
                    pairs.add((a, b))
                    pairs.add((b, a))
            for a, b in sorted(pairs):
                jobs.append((ident, 'concat', kind, _cls(kind, [a, b], '%s:%d+%d' % (kind, len(a) // 2, len(b) // 2)), [a, b], None))
                ident += 1
            # a repeated representative followed / preceded by every element (adjacent equal elements inside a longer list)
            for r in ([short] + reps[:1] if tier == 'quick' else reps):
                for x in pool_:
                    for parts in ([r, r, x], [x, r, r], [r, x, r]):
                        jobs.append((ident, 'concat', kind, _cls(kind, parts, '%s:rep3' % kind), parts, None))
                        ident += 1
            for _ in range(40 if tier == 'quick' else 600):          # random k-tuples
                k = rnd.randint(3, 6)
                parts = [rnd.choice(pool_) for _ in range(k)]
                jobs.append((ident, 'concat', kind, _cls(kind, parts, '%s:k%d' % (kind, k)), parts, None))
                ident += 1
        # BGP-LS NLRIs that differ in nothing but the protocol octet (the same descriptor octets mean different things under
        # IS-IS and OSPF), next to each other in one list
        sib = {}
        for hx in sorted(set(pools.get('lsnlri', []))):
            sib.setdefault(hx[:8] + hx[10:], []).append(hx)
        groups = [g for g in sib.values() if len(g) >= 2]
        groups.sort(key=lambda g: (0 if g[0][26:30] in ('0100', '0101') else 1, g[0]))
        for g in groups[:400 if tier == 'quick' else 10 ** 6]:
            for parts in ([g[0], g[1]], [g[1], g[0]], [g[0], g[1], g[0]]):
                jobs.append((ident, 'concat', 'lsnlri', 'lsnlri:siblings', parts, None))
                ident += 1
        # two (and three) link-state / prefix-SID TLVs of the SAME type whose values differ (flag octets, SIDs): every one keeps
        # its own decoding whatever is decoded after it
        for kind, tw in (('lstlv', 4), ('sidtlv', 2)):
            bytype = {}
            for hx in sorted(set(pools.get(kind, []))):
                bytype.setdefault(hx[:tw], []).append(hx)
            for t, els in sorted(bytype.items()):
                bylen = {}
                for hx in els:
                    if len(hx) > tw + 4:
                        bylen.setdefault(len(hx), []).append(hx)
                nlen = 0
                for ln, cands in sorted(bylen.items()):
                    first = {}
                    for hx in cands:
                        first.setdefault(hx[tw + 4:tw + 6], hx)
                    # all-ones, all-zeros and one more first octet (flags set / clear / mixed)
                    group = [first[k] for k in ('ff', '00') if k in first] + [v for k, v in sorted(first.items()) if k not in ('ff', '00')][:1]
                    if len(group) < 2:
                        continue
                    nlen += 1
                    if nlen > 4:
                        break
                    for x in group:
                        for y in group:
                            if x != y:
                                jobs.append((ident, 'concat', kind, '%s:same-type' % kind, [x, y], None))
                                ident += 1
                                jobs.append((ident, 'concat', kind, '%s:same-type' % kind, [x, y, x], None))
                                ident += 1
        # the known IPv6 special case, always exercised (a list ending with two default routes)
        for parts in (['00', '00'], ['4020010db800000000', '00', '00']):
            jobs.append((ident, 'concat', 'v6prefix', _cls('v6prefix', parts, ''), parts, None))
            ident += 1
        # unknown TLV inserted between known ones
        unknown = {'lstlv': struct.pack('!HH', 9999, 3).hex() + '010203', 'sidtlv': '63' + '0002' + 'abcd', 'cap': 'de02' + '0102',
                   'pathattr': 'c0c8' + '03' + '010203'}
        pools['pathattr'] = [x for x in pools.get('pathattr', [])]
        upd = check_codec.gen_vectors('upd')['vecs']
        attr_blocks = []
        for u in upd:
            if u['asn4'] and len(u['u']['attrs']) >= 4:
                b = bytes(u['b'])[19:]
                wl = struct.unpack('!H', b[:2])[0]
                al = struct.unpack('!H', b[2 + wl:4 + wl])[0]
                blk = b[4 + wl:4 + wl + al]
                tl = []
                while blk:
                    n = struct.unpack('!H', blk[2:4])[0] + 4 if blk[0] & 0x10 else blk[2] + 3
                    tl.append(blk[:n].hex())
                    blk = blk[n:]
                attr_blocks.append(tl)
        # 2-octet-AS sessions: AS_PATH / AGGREGATOR in 2-octet form together with AS4_PATH / AS4_AGGREGATOR (RFC 6793)
        attr_blocks2 = []
        as4path = ['c011' + '06' + '0201' + '00030d40', 'c011' + '0e' + '0102' + '00010000' + 'ffffffff' + '0201' + '0000fde8']
        as4agg = ['c012' + '08' + '00030d40' + 'c0000201']
        for u in upd + check_codec.gen_vectors('updvar')['vecs']:
            if not u['asn4']:
                b = bytes(u['b'])[19:]
                wl = struct.unpack('!H', b[:2])[0]
                al = struct.unpack('!H', b[2 + wl:4 + wl])[0]
                blk = b[4 + wl:4 + wl + al]
                tl = []
                while blk:
                    n = struct.unpack('!H', blk[2:4])[0] + 4 if blk[0] & 0x10 else blk[2] + 3
                    tl.append(blk[:n].hex())
                    blk = blk[n:]
                types = [int(t[2:4], 16) for t in tl]
                if len(set(types)) != len(types) or not (2 in types or 7 in types):
                    continue
                if 17 not in types and 2 in types:
                    tl.append(as4path[len(attr_blocks2) % 2])
                if 18 not in types and 7 in types:
                    tl.append(as4agg[0])
                # the AS-number carrying attributes first (they are the ones whose decoding depends on the session mode)
                tl.sort(key=lambda t: 0 if int(t[2:4], 16) in (2, 7, 17, 18) else 1)
                attr_blocks2.append(tl)
        seen2 = set()
        uniq2 = []
        for tl in attr_blocks2:
            k = tuple(sorted(int(t[2:4], 16) for t in tl)), tuple(len(t) for t in tl)
            if k not in seen2:
                seen2.add(k)
                uniq2.append(tl)
        rnd.shuffle(uniq2)
        for tl in uniq2[:25 if tier == 'quick' else 400]:
            base = tl[:5]
            for perm in itertools.permutations(base):
                jobs.append((ident, 'perm', 'pathattr2', 'pathattr2:perm%d' % len(base), list(perm) + tl[5:], {'orig': tl}))
                ident += 1
            used = set(int(t[2:4], 16) for t in tl)
            ut = [x for x in (200, 250, 251) if x not in used][0]        # an unknown type code the block does not carry already
            jobs.append((ident, 'insert', 'pathattr2', 'pathattr2:insert', [''.join(tl[:1]), 'c0%02x' % ut + '03' + '010203', ''.join(tl[1:])], None))
            ident += 1
        for kind in ('lstlv', 'sidtlv', 'cap'):
            pool_ = sorted(set(pools.get(kind, [])))
            for a in pool_[:120 if tier == 'quick' else 10 ** 6]:
                b = rnd.choice(pool_)
                jobs.append((ident, 'insert', kind, kind + ':insert', [a, unknown[kind], b], None))
                ident += 1
        # sub-TLVs of unknown types (type code 0 among them) between known ones inside the SRv6 TLVs
        for kind in ('srv6loc_sub', 'srv6endx_sub'):
            known = [h for h in pools[kind] if h.startswith('04e4')]
            for u in [h for h in pools[kind] if not h.startswith('04e4')]:
                for a, b in ((known[0], known[1]), (known[2], known[0])):
                    jobs.append((ident, 'insert', kind, kind + ':insert', [a, u, b], None))
                    ident += 1
        # EVPN routes of types the decoder has no parser for (RFC 9251 SMET 6, RFC 9572 S-PMSI 10, 0, 255) between known ones
        pool_ = sorted(set(pools.get('evpn', [])))
        for a in pool_[::(7 if tier == 'quick' else 1)]:
            for u in ('06' + '04' + '01020304', '0a' + '00', '00' + '02' + 'ffff', 'ff' + '08' + '0001ac1000011710'):
                b = rnd.choice(pool_)
                jobs.append((ident, 'insert', 'evpn', 'evpn:insert', [a, u, b], None))
                ident += 1
        for tl in attr_blocks[:30 if tier == 'quick' else 300]:
            jobs.append((ident, 'insert', 'pathattr', 'pathattr:insert', [''.join(tl[:2]), unknown['pathattr'], ''.join(tl[2:])], None))
            ident += 1
        # every permutation of up to 5 attributes; random permutations beyond
        for tl in attr_blocks[:12 if tier == 'quick' else 120]:
            base = tl[:5]
            for perm in itertools.permutations(base):
                jobs.append((ident, 'perm', 'pathattr', 'pathattr:perm%d' % len(base), list(perm) + tl[5:], {'orig': tl}))
                ident += 1
        for tl in attr_blocks:
            if len(tl) > 5:
                for _ in range(10 if tier == 'quick' else 200):
                    p = list(tl)
                    rnd.shuffle(p)
                    jobs.append((ident, 'perm', 'pathattr', 'pathattr:perm%d' % len(tl), p, {'orig': tl}))
                    ident += 1
        procs = 16
        chunks = [jobs[i::procs * 2] for i in range(procs * 2)]
        with mp.get_context('fork').Pool(procs) as pool:
            res = pool.map(_work, [(k, ch, work) for k, ch in enumerate(chunks) if ch])
        nd = os.path.join(work, 'all.ndjson')
        with open(nd, 'w') as out:
            for p, n in res:
                with open(p) as fh:
                    shutil.copyfileobj(fh, out)
                os.remove(p)
        rej, vst = validate(nd)
        byid = {j[0]: j for j in jobs}
        lines = {}
        want = set(r['tid'] for r in rej)
        if want:
            for line in open(nd):
                d = json.loads(line)
                if d['id'] in want:
                    lines[d['id']] = d
        for r in rej:
            j = byid[r['tid']]
            d = lines.get(r['tid'], {})
            sig = {'list': r['pst'], 'cls': r['cls']}
            payload = {'property': PROP, 'kind': 'compose', 'clause': r['clause'], 'signature': sig, 'mode': j[1], 'parts_hex': j[4], 'extra': j[5],
                       'lhs': d.get('lhs'), 'rhs': d.get('rhs'), 'err': d.get('err')}
            v.reject(r['clause'], sig if r['cls'].endswith('ends-with-two-default-routes') else {'list': r['pst']}, payload, '%s lhs=%s rhs=%s %s' % (r['cls'], (d.get('lhs') or [])[:2], (d.get('rhs') or [])[:2], d.get('err', '')))
        # binding self-test
        ok = False
        for line in open(nd):
            d = json.loads(line)
            if d['mode'] == 'concat' and d['parts_ok'] and len(d['lhs']) >= 2:
                bad = dict(d)
                bad['lhs'] = d['lhs'][:-1]
                p = os.path.join(work, 'self.ndjson')
                with open(p, 'w') as o2:
                    o2.write(json.dumps(bad) + '\n')
                rj, _ = validate(p)
                ok = any(x['clause'] == 'C15.compose' for x in rj)
                break
        if not ok:
            common.machinery_failure('C15 binding self-test failed')
        by_kind = {}
        nontriv = set()
        for line in open(nd):
            d = json.loads(line)
            by_kind[(d['list'], d['mode'])] = by_kind.get((d['list'], d['mode']), 0) + 1
            if d['parts_ok']:
                nontriv.add((d['list'], d['cls']))
        with open(nd) as fh:
            smp = json.loads(next(fh))
        cov = {'evaluations': len(jobs), 'distinct_nontrivial': len(nontriv),
               'rule': 'per list kind: every pool element followed by, and preceded by, each of %d representatives (all ordered pairs), random 3..6-tuples; unknown TLV inserted between '
                       'known ones (BGP-LS attribute TLVs, Prefix-SID TLVs, OPEN capabilities, path attributes); all permutations of the first 5 attributes and random permutations of longer '
                       'attribute lists; non-trivial = both parts decode alone to at least one element; distinct = (list kind, element widths)' % reps_n,
               'samples': [{'job': byid[smp['id']][1:5], 'result': smp}],
               'pool_sizes': {k: len(set(p)) for k, p in pools.items()}, 'cases_by_kind_and_mode': {'%s/%s' % k: n for k, n in sorted(by_kind.items())},
               'spec_theorem': {'module': 'WireCompose', 'pairs_checked': tst.get('distinct'), 'stats': tst},
               'lines_validated_by_tlc': vst.get('distinct', 1) - 1, 'rejected': len(rej), 'binding_selftest': {'rejected_as_required': True}, 'exhaustive': False}
        rc = v.finish()
        common.write_evidence(PROP, tier, 'exploration', cov, ASSUME, violations=len(v.violations))
        return rc
    finally:
        shutil.rmtree(work, ignore_errors=True)


def replay_file(prop, path):
    with open(path) as fh:
        p = json.load(fh)
    work = tempfile.mkdtemp(prefix='vcmp_')
    try:
        job = (0, p['mode'], p['signature']['list'], p['signature'].get('cls', 'replay'), p['parts_hex'], p.get('extra'))
        with mp.get_context('fork').Pool(1) as pool:
            pool.apply(_work, ((0, [job], work),))
        rej, _ = validate(os.path.join(work, 'cmp_0000.ndjson'))
        v = common.Verdict(PROP)
        for r in rej:
            v.reject(r['clause'], {'list': r['pst']}, p, 'replayed')
        return v.finish()
    finally:
        shutil.rmtree(work, ignore_errors=True)
