"""C20: on-disk message log across rotation / restart / crash (DESIGN.md 3.6, 5 C20)."""
import os
import sys
import json
import random
import shutil
import tempfile
import multiprocessing as mp

HERE = os.path.dirname(os.path.abspath(__file__))
sys.path.insert(0, HERE)
import tlc            # noqa: E402
import graph          # noqa: E402
import common         # noqa: E402

PROP = 'C20'
ASSUME = ['a crash leaves a prefix of the octets of the event being written (earlier events are flushed+fsynced by write_msg)',
          'file names sort in creation order (time.time() of the virtual clock advances between events)',
          'TLC/SANY, CommunityModules Json/IOUtils', 'the directory parser of harness/msglog_worker.py classifies lines correctly']


def cfg(maxev, maxrot, maxcrash, fixed=True):
    return ('CONSTANTS MAXEV = %d MAXROT = %d MAXCRASH = %d KINDS = {"plain", "odd", "update"} FIXED = %s\n'
            'INIT Init\nNEXT Next\nVIEW View\nINVARIANT Inv\nCHECK_DEADLOCK FALSE\n' % (maxev, maxrot, maxcrash, 'TRUE' if fixed else 'FALSE'))


_G = None


def _work(args):
    k, items, outdir = args[:3]
    import msglog_worker as M
    if len(args) > 3 and M.PEER != args[3]:
        M.set_peer(args[3])
    path = os.path.join(outdir, 'part_%04d.ndjson' % k)
    drifts, steps = [], 0
    with open(path, 'w') as fh:
        for tid, walk, frac in items:
            lines, drift, n = M.replay_walk(_G, walk, tid, frac)
            for ln in lines:
                fh.write(json.dumps(ln, separators=(',', ':')) + '\n')
            steps += n
            if drift:
                drifts.append(drift)
    return path, drifts, steps


def validate(ndjson):
    c = ('INIT TInit\nNEXT TNext\nPOSTCONDITION AllConsumed\nCHECK_DEADLOCK FALSE\n')
    st, text = tlc.run('TraceLog', c, workers=1, timeout=7200, env={'TRACE_FILE': ndjson})
    n = sum(1 for _ in open(ndjson))
    if st.get('distinct') != n + 1:
        raise tlc.TlcError('TraceLog did not consume every line (%s of %d):\n%s' % (st.get('distinct'), n, text[-3000:]))
    return list(tlc.printed(text, 'R')), st


def run(prop, tier, seed):
    global _G
    v = common.Verdict(PROP)
    work = tempfile.mkdtemp(prefix='vlogc_')
    try:
        bounds = (4, 1, 2) if tier == 'quick' else (6, 2, 3)
        g = tlc.dump_graph('MsgLog', cfg(*bounds), raw=True)
        _G = g
        # the model of the ORIGINAL handler must be rejected by the audit (vacuity guard, documents the defects)
        dst, dtext = tlc.run('MsgLog', cfg(4, 1, 2, fixed=False), timeout=3000)
        ndef = sorted(set(d['clause'] for d in tlc.printed(dtext, 'V')))
        if len(ndef) < 2:
            common.machinery_failure('MsgLog.tla audit is vacuous: original-handler variant not rejected (%s)' % ndef)
        mst, mtext = tlc.run('MsgLog', cfg(*bounds), timeout=3000)
        mcands = sorted(set(d['clause'] for d in tlc.printed(mtext, 'V')))
        walks = graph.plan_tour(g, None, seed=seed, max_len=40)
        walks += graph.random_walks(g, 300 if tier == 'quick' else 3000, 30, seed)
        rnd = random.Random(seed)
        items = []
        tid = 0
        fracs = [0.0, 0.5, 0.999] if tier == 'quick' else [j / 40.0 for j in range(40)] + [0.999]
        for w in walks:
            has_torn = any(g.edges[u][i][0]['cut'] == 'torn' for (u, i) in w)
            for fr in (fracs if has_torn else [0.5]):
                items.append((tid, w, fr))
                tid += 1
        procs = 16
        chunks = [items[i::procs * 2] for i in range(procs * 2)]
        with mp.get_context('fork').Pool(procs) as pool:
            res = pool.map(_work, [(k, ch, work) for k, ch in enumerate(chunks) if ch])
        # the same histories with an IPv6 peer whose configured address is spelled in upper case (the handler keys its files
        # by the lower-cased address); a separate pool: the address is process-wide configuration
        alt = [(t + 50000000, w, fr) for (t, w, fr) in (items if tier == 'thorough' else items[::3])]
        chunks2 = [alt[i::procs * 2] for i in range(procs * 2)]
        with mp.get_context('fork').Pool(procs) as pool:
            res += pool.map(_work, [(1000 + k, ch, work, '2001:DB8::2') for k, ch in enumerate(chunks2) if ch])
        nd = os.path.join(work, 'all.ndjson')
        with open(nd, 'w') as out:
            for r in res:
                with open(r[0]) as fh:
                    shutil.copyfileobj(fh, out)
                os.remove(r[0])
        drifts = [d for r in res for d in r[1]]
        steps = sum(r[2] for r in res)
        rej, vst = validate(nd)
        bytid = {}
        want = set(r['tid'] for r in rej[:100])
        if want:
            for line in open(nd):
                d = json.loads(line)
                if d['tid'] in want:
                    bytid.setdefault(d['tid'], []).append(d)
        for r in rej:
            ls = bytid.get(r['tid'], [])
            sig = {'step': r['pst'], 'arg': r['cls']}
            payload = {'property': PROP, 'kind': 'msglog', 'clause': r['clause'], 'signature': sig,
                       'events': [{'k': x['k'], 'kind': x['kind'], 'cut': x['cut']} for x in ls[1:] if x['i'] <= r['i']],
                       'peer_address': '2001:DB8::2' if r['tid'] >= 50000000 else '10.0.0.2',
                       'disk_at_rejection': [x['disk'] for x in ls if x.get('i') == r['i']], 'files': [x.get('files') for x in ls if 'files' in x]}
            v.reject(r['clause'], sig, payload, 'trace=%d line=%d extra=%s' % (r['tid'], r['i'], json.dumps(r['extra'])))
        for d in drifts[:5]:
            print('DRIFT property=C20 step=%d event=%s model=%s real=%s' % (d['step'], json.dumps(d['ev']), json.dumps(d['model']), json.dumps(d['real'])))
        # binding self-test: a recorded directory with one sequence number changed must be rejected
        ok = False
        for line in open(nd):
            d = json.loads(line)
            if d.get('k') == 'event' and sum(len(f) for f in d['disk']) >= 2:
                bad = json.loads(line)
                for f in bad['disk']:
                    if f:
                        f[-1]['ps'][0]['seq'] += 5
                        break
                p = os.path.join(work, 'self.ndjson')
                with open(p, 'w') as o2:
                    o2.write(json.dumps({'tid': 0, 'i': 0, 'k': 'begin', 'kind': '', 'cut': ''}) + '\n' + json.dumps(bad) + '\n')
                rj, _ = validate(p)
                ok = any(x['clause'] == 'C20.audit' for x in rj)
                break
        if not ok:
            common.machinery_failure('C20 binding self-test failed')
        with open(nd) as fh:
            sample = [json.loads(next(fh)) for _ in range(5)]
        cov = {'states': g.stats['distinct'], 'transitions': g.stats['generated'], 'traces_validated_against_impl': len(items),
               'samples': [{'what': 'first steps of one replayed history (directory parsed after every step)', 'lines': sample}],
               'model': {'bounds': dict(zip(('MAXEV', 'MAXROT', 'MAXCRASH'), bounds)), 'stats': g.stats, 'graph_edges': g.nedges,
                         'violations_on_fixed_model': mcands, 'clauses_rejecting_original_handler_model': ndef},
               'replay': {'walks': len(walks), 'executions': len(items), 'steps': steps, 'torn_offsets_per_crash': len(fracs),
                          'drifted': len(drifts)},
               'lines_validated': vst.get('distinct', 1) - 1, 'rejected_lines': len(rej), 'model_conformant': not drifts,
               'binding_selftest': {'rejected_as_required': True}, 'exhaustive': False,
               'rule': 'model: TLC exhaustive over histories within the bounds (events incl. non-serialisable payloads, rotation after UPDATE, crash with 4 tail '
                       'classes, orderly stop, restart); code: every edge of that graph replayed on the real DefaultHandler in a scratch directory, torn writes cut '
                       'at several (thorough: 41) octet offsets; the directory is parsed after every step and audited by TLC; a third of the histories (thorough: all) is run a second time with an IPv6 peer whose configured address is spelled in upper case'}
        rc = v.finish()
        common.write_evidence(PROP, tier, 'model_checking', cov, ASSUME, violations=len(v.violations))
        return rc
    finally:
        shutil.rmtree(work, ignore_errors=True)


def replay_file(prop, path):
    print('replay of C20 files: re-run ./check C20 (histories are regenerated from the model)')
    return 0
