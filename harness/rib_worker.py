"""Worker side of C19: replay behaviours of spec/Rib.tla on the real agent with RIB maintenance enabled."""
import json
import struct
import world
import wire
from world import World, W

P = {'p1': (24, b'\x0a\x01\x01', '10.1.1.0/24'), 'p2': (16, b'\x0a\x02', '10.2.0.0/16')}
# every other pair of histories uses a nested pool: p2 covers p1 (lookups by address then have two candidates)
P_FLAT = dict(P)
P_NESTED = {'p1': (24, b'\x0a\x01\x01', '10.1.1.0/24'), 'p2': (16, b'\x0a\x01', '10.1.0.0/16')}
# lookups made after every step: the pool prefixes themselves and bare addresses; for each the pool prefixes that cover it,
# longest first
PROBES = {False: {'p1': ['p1'], 'p2': ['p2'], 'q1': ['p1'], 'q2': ['p2'], 'q3': []},
          True: {'p1': ['p1', 'p2'], 'p2': ['p2'], 'q1': ['p1', 'p2'], 'q2': ['p2'], 'q3': []}}
QUERY = {False: {'q1': '10.1.1.5', 'q2': '10.2.3.4', 'q3': '10.9.9.9'}, True: {'q1': '10.1.1.5', 'q2': '10.1.2.5', 'q3': '10.9.9.9'}}
NESTED = False
# every eighth history: the second attribute set of RECEIVED IPv4 routes is the empty one (an UPDATE with NLRI and a Total
# Path Attribute Length of 0; yabgp accepts it and keeps the routes with {} as attributes).  Lookups through REST cannot
# tell such a route from an absent one (ip_longest_match tests the attributes for truth), so C19.lookup is not judged there.
EMPTYMODE = False
# every third history: a received flowspec / VPNv4 UPDATE also carries, in its classic Withdrawn Routes field, an IPv4 prefix
# that was never announced (one UPDATE for two address families; for the IPv4 table that withdrawal changes nothing)
MIXED = False
TWOCOMP = False      # every fourth history: received flowspec rules have two components, withdrawals list them in reverse order
XCOMM = False        # every fifth history: REST announcements carry extended communities (see rest_body)


def MIXWD():
    return wire.prefix4(24, b'\x0a\x09\x09') if MIXED else b''
F = {'f1': ((192, 85, 1), '192.85.1.0/24'), 'f2': ((192, 85, 2), '192.85.2.0/24')}
V = {'v1': (bytes([170, 0, 0, 0]), '170.0.0.0/32'), 'v2': (bytes([171, 0, 0, 0]), '171.0.0.0/32')}
RD = b'\x00\x00\x00\x64\x00\x00\x00\x64'
MED = {1: 10, 2: 20}
BASE = wire.attr(0x40, 1, b'\x00') + wire.attr(0x40, 2, wire.as_path((65002,), True))


# how the two attribute sets of the model differ: by MED (default) or only by the next hop (every other history) - the next
# hop is a path attribute of the route like any other, for the multiprotocol families it travels inside MP_REACH_NLRI
NHMODE = False
NH4 = {1: b'\x0a\x00\x00\x02', 2: b'\x0a\x00\x00\x03'}
NH4S = {1: '10.0.0.2', 2: '10.0.0.3'}


def med_attr(a):
    return wire.attr(0x80, 4, struct.pack('!I', MED[1 if NHMODE else a]))


def med_of(a):
    return MED[1 if NHMODE else a]


def nh_of(a):
    return NH4[a if NHMODE else 1]


def nhs_of(a):
    return NH4S[a if NHMODE else 1]


def peer_update(f, wd, nl, a):
    """octets of the UPDATE a peer would send (harness-side encoder, independent of yabgp)"""
    if f == 'ipv4':
        attrs = (BASE + wire.attr(0x40, 3, nh_of(a)) + med_attr(a)) if nl else b''
        if EMPTYMODE and a == 2:
            attrs = b''            # announcement without any path attribute: the route is held with an empty attribute set
        return wire.update(withdrawn=b''.join(wire.prefix4(P[k][0], P[k][1]) for k in wd), attrs=attrs,
                           nlri=b''.join(wire.prefix4(P[k][0], P[k][1]) for k in nl))
    if f == 'flowspec':
        def rules(ks, withdraw=False):
            out = b''
            for k in ks:
                comp = b'\x01\x18' + bytes(F[k][0])
                if TWOCOMP:
                    # rules of two components (destination and source prefix); a withdrawal may list them in the other order -
                    # it still names the same rule
                    src = b'\x02\x08\x0a'
                    comp = (src + comp) if withdraw else (comp + src)
                out += bytes([len(comp)]) + comp
            return out
        un = wire.attr(0x80, 15, struct.pack('!HB', 1, 133) + rules(wd, True)) if wd else b''
        if nl:
            return wire.update(withdrawn=MIXWD(), attrs=BASE + med_attr(a) + wire.attr(0x80, 14, (struct.pack('!HBB', 1, 133, 4) + nh_of(a) if NHMODE else struct.pack('!HBB', 1, 133, 0)) + b'\x00' + rules(nl)) + un)
        return wire.update(withdrawn=MIXWD(), attrs=un)

    def routes(ks, withdraw):
        out = b''
        for k in ks:
            out += bytes([24 + 64 + 32]) + (b'\x80\x00\x00' if withdraw else struct.pack('!I', (25 << 4) | 1)[1:]) + RD + V[k][0]
        return out
    un = wire.attr(0x80, 15, struct.pack('!HB', 1, 128) + routes(wd, True)) if wd else b''
    if nl:
        v = struct.pack('!HBB', 1, 128, 12) + b'\x00' * 8 + (nh_of(a) if NHMODE else b'\x02\x02\x02\x02') + b'\x00' + routes(nl, False)
        return wire.update(withdrawn=MIXWD(), attrs=BASE + med_attr(a) + wire.attr(0x80, 14, v) + un)
    return wire.update(withdrawn=MIXWD(), attrs=un)


def rest_body(f, wd, nl, a):
    if f == 'ipv4':
        attr = {'1': 0, '2': [], '3': ('10.0.0.1' if not NHMODE else {1: '10.0.0.1', 2: '10.0.0.4'}[a]), '4': med_of(a)} if nl else {}
        if nl and XCOMM:
            # extended communities in forms that leave something to fill in (a traffic-action with one of its two flags named,
            # a comma list): what the agent remembers for the route is what the operator sent, however often it is sent
            attr['16'] = ['traffic-action:s:1', 'route-target:65001:%d' % a] if a == 1 else ['traffic-action:t:1', 'route-target:65001:1,65001:2']
        return {'attr': attr, 'nlri': [P[k][2] for k in nl], 'withdraw': [P[k][2] for k in wd]}
    if f == 'flowspec':
        at = {}
        if nl:
            at = {'1': 0, '2': [], '4': med_of(a), '14': {'afi_safi': [1, 133], 'nexthop': (nhs_of(a) if NHMODE else ''), 'nlri': [{'1': F[k][1]} for k in nl]}}
        if wd:
            at['15'] = {'afi_safi': [1, 133], 'withdraw': [{'1': F[k][1]} for k in wd]}
        return {'attr': at}
    at = {}
    if nl:
        at = {'1': 0, '2': [], '4': med_of(a), '14': {'afi_safi': [1, 128], 'nexthop': {'rd': '0:0', 'str': (nhs_of(a) if NHMODE else '2.2.2.2')},
                                                   'nlri': [{'label': [25], 'rd': '100:100', 'prefix': V[k][1]} for k in nl]}}
    if wd:
        at['15'] = {'afi_safi': [1, 128], 'withdraw': [{'label': [25], 'rd': '100:100', 'prefix': V[k][1]} for k in wd]}
    return {'attr': at}


def attr_id(attr):
    if attr is None:
        return 0
    if not attr:
        # a route held with an empty attribute set: in EMPTYMODE that is attribute set 2, otherwise nothing the harness sent
        return 2 if EMPTYMODE else 99
    if NHMODE:
        nh = attr.get(3, attr.get('3'))
        return {'10.0.0.2': 1, '10.0.0.3': 2, '10.0.0.1': 1, '10.0.0.4': 2}.get(nh, 99)
    m = attr.get(4, attr.get('4'))
    for k, v in MED.items():
        if v == m:
            return k
    return 99


class RibRun(object):
    def __init__(self):
        self.w = World({'hold': 0, 'rib': True})
        self.c = 0
        self.establish(first=True)

    def establish(self, first=False):
        w = self.w
        if first:
            w.apply({'k': 'boot'})
        elif getattr(self, 'stopped', False):
            self.stopped = False
            w.apply({'k': 'start'})
        else:
            dc = w.timer('idle')
            w.nticks = int(round(dc.time / w.tick))
            W.now = w.nticks * w.tick
            dc.fire()
        self.c = len(W.connectors)
        for ev in [{'k': 'connOk', 'c': self.c}, {'k': 'msg', 'c': self.c, 'm': 'OPEN', 'h': 0}, {'k': 'msg', 'c': self.c, 'm': 'KA'}]:
            w.apply(ev)
        assert w.observe()['st'] == 'ESTABLISHED'

    def observe(self, up):
        w = self.w
        pro = w.p.fsm.protocol
        direct = dict(pro.adj_rib_in.get('ipv4', {})) if pro is not None else {}
        ribin = {k: attr_id(direct.get(P[k][2])) for k in P}
        ribout = {k: 0 for k in P}
        restok = True
        ver = {'in': {'ipv4': 0, 'flowspec': 0, 'mpls_vpn': 0}, 'out': {'ipv4': 0, 'flowspec': 0, 'mpls_vpn': 0}}
        lookup = {q: ['', 0] for q in PROBES[NESTED]}
        if up:
            qs = {k: P[k][2] for k in P}
            qs.update(QUERY[NESTED])
            r = w.rest('POST', 'adj-rib-in', body={'data': sorted(qs.values())})
            js = r.get('json') or {}
            if r['status'] != 200 or not js.get('status'):
                restok = False
            else:
                names = {P[k][2]: k for k in P}
                for q, text in qs.items():
                    e = js['data'].get(text) or {}
                    if e:
                        lookup[q] = [names.get(e.get('prefix'), '?'), attr_id(e.get('attr'))]
            r = w.rest('POST', 'adj-rib-out', body={'data': [P[k][2] for k in P]})
            js = r.get('json') or {}
            if r['status'] != 200 or not js.get('status'):
                restok = False
            else:
                ribout = {k: attr_id(js['data'].get(P[k][2])) for k in P}
            for d, act in (('in', 'received'), ('out', 'send')):
                r = w.rest('GET', 'version/' + act)
                js = (r.get('json') or {}).get('version')
                if r['status'] != 200 or not isinstance(js, dict):
                    restok = False
                else:
                    for f in ver[d]:
                        ver[d][f] = js.get(f, -1)
        return ribin, ribout, ver, restok, lookup


def replay_walk(g, walk, tid):
    global NHMODE, NESTED, EMPTYMODE, MIXED, XCOMM, TWOCOMP
    TWOCOMP = (tid % 4 == 2)
    XCOMM = (tid % 5 == 3)
    MIXED = (tid % 3 == 1)
    NHMODE = bool(tid % 2)
    NESTED = bool((tid // 2) % 2)
    EMPTYMODE = (tid % 8 == 4)
    P.clear()
    P.update(P_NESTED if NESTED else P_FLAT)
    run = RibRun()
    w = run.w
    lines = [{'tid': tid, 'i': 0, 'k': 'begin', 'd': '', 'f': '', 'shape': ''}]
    up = True
    i = 0
    drift = None
    for (u, idx) in walk:
        ev, obs, _, v = g.edges[u][idx][:4]
        k = ev['k']
        sendok = True
        if k == 'update':
            if not up:
                continue
            if ev['d'] == 'in':
                data = peer_update(ev['f'], ev['wd'], ev['nl'], ev['a'])
                w.apply({'k': 'data', 'c': run.c, 'hex': data.hex()})
            else:
                r = w.rest('POST', 'send/update', body=rest_body(ev['f'], ev['wd'], ev['nl'], ev['a']))
                sendok = bool((r.get('json') or {}).get('status') is True)
        elif k == 'drop':
            if not up:
                continue
            # "the session drops": by the peer (TCP lost), or by the agent itself - it answers a frame with a bad marker with a
            # NOTIFICATION and closes, or the operator stops the peering - and the TCP close completes afterwards
            how = (tid + i) % 3
            if how == 1:
                w.apply({'k': 'data', 'c': run.c, 'hex': '00' * 16 + '001304'})
            elif how == 2:
                w.apply({'k': 'stop'})
                run.stopped = True
            w.apply({'k': 'connLost', 'c': run.c})
            up = False
        elif k == 'newsession':
            if up:
                continue
            run.establish()
            up = True
        o = w.observe()
        i += 1
        ribin, ribout, ver, restok, lookup = run.observe(up)
        lines.append({'tid': tid, 'i': i, 'k': k, 'd': ev['d'], 'f': ev['f'], 'wd': ev['wd'], 'nl': ev['nl'], 'a': ev['a'],
                      'shape': 'wd%d-nl%d' % (len(ev['wd']), len(ev['nl'])), 'up': up, 'ribin': ribin, 'ribout': ribout, 'ver': ver,
                      'restok': restok, 'sendok': sendok, 'exc': len(o['errs']), 'lookup': lookup, 'cov': ({} if EMPTYMODE else PROBES[NESTED])})
        if drift is None and up and k == 'update':
            mt, mv = obs['tab'], obs['ver']
            same_in = all(ribin.get(k2) == v2 for k2, v2 in mt['in']['ipv4'].items())
            same_out = all(ribout.get(k2) == v2 for k2, v2 in mt['out']['ipv4'].items())
            if not same_in or not same_out or any(mv[d][f] != ver[d][f] for d in ver for f in ver[d]):
                drift = {'tid': tid, 'step': i, 'ev': ev, 'model': {'tab': mt, 'ver': mv}, 'real': {'ribin': ribin, 'ribout': ribout, 'ver': ver}}
    return lines, drift, i
