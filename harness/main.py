"""CLI of the verification machinery: ./check <ID> [--tier quick|thorough] [--seed N] [--replay PATH]."""
import os
import sys
import argparse
import traceback

HERE = os.path.dirname(os.path.abspath(__file__))
sys.path.insert(0, HERE)

SESSION = ('C01', 'C02', 'C03', 'C05', 'C10', 'C12', 'C13', 'C16', 'C18')


def main():
    ap = argparse.ArgumentParser()
    ap.add_argument('prop')
    ap.add_argument('--tier', default=os.environ.get('VERIF_TIER', 'quick'), choices=['quick', 'thorough'])
    ap.add_argument('--seed', type=int, default=None)
    ap.add_argument('--replay', default=None)
    a = ap.parse_args()
    if a.seed is not None:
        os.environ['VERIF_SEED'] = str(a.seed)
    import common
    import tlc
    try:
        if a.prop in SESSION:
            import check_session as M
        elif a.prop == 'C04':
            import check_framing as M
        elif a.prop == 'C20':
            import check_msglog as M
        elif a.prop == 'C19':
            import check_rib as M
        elif a.prop == 'C11':
            import check_decoders as M
        elif a.prop == 'C15':
            import check_compose as M
        elif a.prop in ('C06', 'C07', 'C08', 'C09', 'C14', 'C17'):
            import check_codec as M
        else:
            print('unknown property %s' % a.prop, file=sys.stderr)
            return 2
        if a.replay:
            return M.replay_file(a.prop, a.replay)
        return M.run(a.prop, a.tier, common.seed())
    except tlc.TlcError as e:
        print('MACHINERY-FAILURE: %s' % e, file=sys.stderr)
        return 2
    except SystemExit:
        raise
    except BaseException:
        traceback.print_exc()
        print('MACHINERY-FAILURE: unexpected exception in the harness', file=sys.stderr)
        return 2


if __name__ == '__main__':
    sys.exit(main())
