"""C11: every decoder terminates within bounded work on every input; UPDATE decoding never raises (DESIGN.md 5 C11)."""
import os
import sys
import json
import time
import random
import shutil
import tempfile
import multiprocessing as mp

HERE = os.path.dirname(os.path.abspath(__file__))
sys.path.insert(0, HERE)
import tlc            # noqa: E402
import common         # noqa: E402

PROP = 'C11'
WA, WB = 6000, 160       # executed-source-lines bound per call: WA + WB * len(input)
ASSUME = ['work = executed yabgp source lines counted with sys.monitoring (deterministic); the bound %d + %d * len(input) lines is the meaning given to "small bounded amount of work"' % (WA, WB),
          'TLC enumerates the exhaustive short inputs and the TLV grids; longer inputs are mutations of valid encodings and seeded random strings (sampled)',
          'termination of arbitrary Python is not something TLC can prove: this is bounded-exhaustive + sampled testing driven by the specification']
CACHE = os.path.join(os.path.dirname(HERE), '.cache')


def gen(family, maxshort):
    cfg = 'CONSTANTS FAMILY = "%s" MAXSHORT = %d\nINIT Init\nNEXT Next\nINVARIANT Emit\nCHECK_DEADLOCK FALSE\n' % (family, maxshort)
    key = tlc._sha(cfg, *tlc.spec_deps('WireTlv'))
    os.makedirs(CACHE, exist_ok=True)
    tag = tlc.spec_tag('WireTlv')
    cp = os.path.join(CACHE, 'tlv_%s_%s_%s.json' % (family, tag, key))
    if os.path.exists(cp):
        with open(cp) as fh:
            return json.load(fh)
    tlc.prune('tlv_%s' % family, tag)
    st, text = tlc.run('WireTlv', cfg, timeout=3000)
    if not st.get('completed'):
        raise tlc.TlcError('WireTlv(%s) failed:\n%s' % (family, text[-2000:]))
    out = {'stats': st, 'vecs': [[v['ep'], bytes(v['b']).hex()] for v in tlc.printed(text, 'W')]}
    with open(cp, 'w') as fh:
        json.dump(out, fh)
    return out


def _work(args):
    import decoder_worker
    return decoder_worker.work(args)


def _registered(_):
    import decoder_worker
    return decoder_worker.registered()


def _mutants(args):
    """valid encodings (reference vectors of the wire modules + bytes literals of the unit tests) and their mutations"""
    tier, seed = args
    import scenarios
    import wire
    rnd = random.Random(seed)
    seeds = []
    import check_codec
    for fam in ('upd', 'comm', 'updap'):
        for v in check_codec.gen_vectors(fam)['vecs'][::7]:
            seeds.append(bytes(v['b'])[19:])
    lits = scenarios.test_literals(scenarios.world.REPO)
    jobs = []
    # every reference encoding of the multiprotocol families (label stacks, RDs, EVPN routes, flowspec rules, the construct-only
    # families and the MP-carried IPv4 routes) is decoded once as it is, under the work meter
    for fam in ('mp_ipv6', 'mp_lu4', 'mp_lu6', 'mp_vpn4', 'mp_vpn6', 'mp_evpn', 'mp_fs', 'enc', 'mpdec'):
        for v in check_codec.gen_vectors(fam)['vecs']:
            jobs.append(('Update.parse', bytes(v['b'])[19:].hex(), 'valid-' + fam))
    for lit in lits:
        jobs.append(('top', lit.hex(), 'literal'))
        jobs.append(('Update.parse', wire.update(attrs=lit)[19:].hex(), 'literal-as-attrs'))
    for s in seeds[:400 if tier == 'quick' else 4000]:
        jobs.append(('Update.parse', s.hex(), 'valid'))
        for i in range(len(s)):                       # every 1-octet mutation position, a few values
            for val in ((0, 255) if tier == 'quick' else (0, 1, 127, 128, 255)):
                if s[i] != val:
                    m = bytearray(s)
                    m[i] = val
                    jobs.append(('Update.parse', bytes(m).hex(), 'mut1'))
            if tier == 'quick' and i > 80:
                break
    for lit in lits:
        if len(lit) > 6:
            for _ in range(3 if tier == 'quick' else 30):
                b = lit
                for _ in range(rnd.randint(1, 3)):
                    b = scenarios.mutate(b, rnd)
                jobs.append(('top', b.hex(), 'mutlit'))
    # long inputs for EVERY entry point: repeated octets and short repeated patterns (worst cases for loops that
    # re-scan their input), at sizes up to the 4096-octet message limit
    pats = [b'\x00', b'\xff', b'\x80', b'\x01', b'\x00\x01', b'\x18\x00\x00\x01', b'\x70\x00\x00\x10', b'\x00\x00\x00\x03']
    for pat in pats:
        for n in ((64, 200, 1000, 4096) if tier == 'thorough' else (64, 200, 1000, 4096)):
            jobs.append(('*', (pat * (n // len(pat) + 1))[:n].hex(), 'longrep'))
    for _ in range(300 if tier == 'quick' else 20000):
        n = rnd.choice([3, 4, 5, 8, 19, 64, 255, 256, 1000, 4096])
        b = bytes(rnd.randrange(256) for _ in range(n)) if rnd.random() < 0.5 else bytes([rnd.choice([0, 0xff, 0x40, 0x80, 1])]) * n
        jobs.append(('*' if n <= 64 else 'top', b.hex(), 'random'))
    return jobs


def validate(ndjson):
    cfg = 'CONSTANTS WA = %d WB = %d\nINIT Init\nNEXT Next\nPOSTCONDITION AllConsumed\nCHECK_DEADLOCK FALSE\n' % (WA, WB)
    st, text = tlc.run('TraceDec', cfg, workers=1, timeout=7200, env={'TRACE_FILE': ndjson})
    n = sum(1 for _ in open(ndjson))
    if st.get('distinct') != n + 1:
        raise tlc.TlcError('TraceDec did not consume every line (%s of %d):\n%s' % (st.get('distinct'), n, text[-3000:]))
    return list(tlc.printed(text, 'R')), st


def run(prop, tier, seed):
    v = common.Verdict(PROP)
    work = tempfile.mkdtemp(prefix='vdec_')
    try:
        with mp.get_context('fork').Pool(1) as pool:
            reg = pool.apply(_registered, (0,))
            mut = pool.apply(_mutants, ((tier, seed),))
        ls = gen('lsgrid', 1)
        sid = gen('sidgrid', 1)
        short = gen('short', 2)
        # coverage gap report: registered decoders the specification's table does not list
        spec_types = set()
        for ep, hx in ls['vecs']:
            spec_types.add(int(hx[:4], 16))
        gap = sorted(set(reg['ls']) - spec_types)
        if gap:
            print('COVERAGE-GAP property=C11 link-state TLV types registered by yabgp but unknown to spec/WireTlv.tla: %s' % gap)
        jobs = []
        grids = {f: gen(f, 1) for f in ('capgrid', 'attrgrid', 'mpgrid', 'nestgrid', 'fslen', 'lsnlri', 'deepgrid', 'textgrid')}
        for ep, hx in ls['vecs'] + sid['vecs']:
            jobs.append((ep, hx, 'tlvgrid'))
        for f, g in grids.items():
            for ep, hx in g['vecs']:
                jobs.append((ep, hx, f))
                if ep == 'Update.parse' and f != 'fslen':
                    jobs.append(('Update.parse/as2', hx, f))
        for ep, hx in short['vecs']:
            n = len(hx) // 2
            jobs.append(('*' if (n <= 1 or tier == 'thorough') else 'top', hx, 'short%d' % n))
        for ep, hx, cls in mut:
            jobs.append((ep, hx, cls))
        items = [(i, ep, hx, cls) for i, (ep, hx, cls) in enumerate(jobs)]
        procs = 16
        chunks = [items[i::procs * 4] for i in range(procs * 4)]
        STUCK = 60.0         # seconds of wall clock one decoder call may take before it counts as not terminating
        stuck = []
        args = [(k, ch, work) for k, ch in enumerate(chunks) if ch]
        pool = mp.get_context('fork').Pool(procs)
        try:
            ar = pool.map_async(_work, args)
            while not ar.ready():
                ar.wait(5)
                now = time.time()
                old = [f for f in os.listdir(work) if f.startswith('cur_') and now - os.path.getmtime(os.path.join(work, f)) > STUCK]
                if old:
                    for f in old:
                        try:
                            with open(os.path.join(work, f)) as fh:
                                stuck.append(json.loads(fh.read().strip()))
                        except Exception:
                            pass
                    break
            if not stuck:
                res = ar.get()
        finally:
            pool.terminate()
            pool.join()
        nd = os.path.join(work, 'all.ndjson')
        ncalls = 0
        with open(nd, 'w') as out:
            if stuck:
                # the run ends here: what the workers had finished is judged, each stuck call is a line that did not terminate
                for f in sorted(os.listdir(work)):
                    if f.startswith('dec_'):
                        with open(os.path.join(work, f)) as fh:
                            for line in fh:
                                if line.endswith('\n'):
                                    out.write(line)
                                    ncalls += 1
                for sline in stuck:
                    out.write(json.dumps({'id': sline['id'], 'ep': sline['ep'], 'cls': sline['cls'], 'n': sline['n'], 'work': 2 ** 30, 'over': True,
                                          'raised': False, 'upd': False, 'inrange': False, 'isdict': False,
                                          'err': 'no answer within %d s of wall clock' % STUCK, 'hex': sline['hex']}, separators=(',', ':')) + '\n')
                    ncalls += 1
            else:
                for p, n in res:
                    ncalls += n
                    with open(p) as fh:
                        shutil.copyfileobj(fh, out)
                    os.remove(p)
        rej, vst = validate(nd)
        want = set(r['tid'] for r in rej)
        byid = {}
        if want:
            for line in open(nd):
                if '"hex"' in line:
                    d = json.loads(line)
                    if d['id'] in want:
                        byid[d['id']] = d
        for r in rej:
            d = byid.get(r['tid'], {})
            sig = {'ep': r['pst'], 'cls': r['cls']}
            payload = {'property': PROP, 'kind': 'decoder-call', 'clause': r['clause'], 'signature': sig, 'entry_point': r['pst'], 'input_hex': d.get('hex'),
                       'observed': {k: d.get(k) for k in ('n', 'work', 'over', 'raised', 'inrange', 'isdict', 'err')}}
            v.reject(r['clause'], sig if r['clause'] != 'C11.noraise' else {'ep': r['pst']}, payload, 'n=%s work=%s err=%s' % (d.get('n'), d.get('work'), d.get('err')))
        # binding self-test
        p = os.path.join(work, 'self.ndjson')
        with open(p, 'w') as o2:
            o2.write(json.dumps({'id': 1, 'ep': 'Update.parse', 'cls': 'self', 'n': 10, 'work': WA + WB * 10 + 1, 'over': False, 'raised': False, 'upd': True,
                                 'inrange': True, 'isdict': True, 'err': ''}) + '\n')
        rj, _ = validate(p)
        if not any(x['clause'] == 'C11.work' for x in rj):
            common.machinery_failure('C11 binding self-test failed')
        eps = {}
        classes = set()
        maxratio = {}
        for line in open(nd):
            d = json.loads(line)
            eps[d['ep']] = eps.get(d['ep'], 0) + 1
            classes.add((d['ep'], d['cls'], min(d['n'], 5)))
            maxratio[d['ep']] = max(maxratio.get(d['ep'], 0), d['work'])
        with open(nd) as fh:
            smp = [json.loads(next(fh)) for _ in range(3)]
        cov = {'evaluations': ncalls, 'distinct_nontrivial': len(classes),
               'rule': 'TLC enumerates every octet string of length <= 2 (65,793) and the TLV grids (every link-state / prefix-SID TLV type of the spec table x sub-length 0..16 x 5 body '
                       'patterns, plus lying length fields), the OPEN capability grid (13 codes x length 0..16 x patterns, three packagings, lying lengths), the path-attribute grid (24 type codes x 3 flag values x length 0..16 x patterns, with and without extended length) and the MP_REACH / MP_UNREACH grid (19 AFI/SAFI x 6 next-hop lengths x NLRI patterns); each is handed to the real decoder entry points (12 top-level incl. Update.parse in 3 modes; 23 attribute/NLRI level for '
                       'strings <= 1 octet, thorough: <= 2) under the line-count meter; plus every bytes literal of the unit tests, 1-octet mutations of reference UPDATE encodings, '
                       'mutated literals and seeded random / repeated-octet strings up to 4096 octets; distinct = (entry point, input class, length class)',
               'samples': smp, 'calls_per_entry_point': eps, 'max_work_per_entry_point': maxratio, 'work_bound': {'WA': WA, 'WB': WB},
               'tlc': dict({'lsgrid': ls['stats'], 'sidgrid': sid['stats'], 'short': short['stats']}, **{f: g['stats'] for f, g in grids.items()}), 'coverage_gap_ls_types': gap,
               'lines_validated_by_tlc': vst.get('distinct', 1) - 1, 'rejected': len(rej), 'binding_selftest': {'rejected_as_required': True},
               'exhaustive': False}
        rc = v.finish()
        common.write_evidence(PROP, tier, 'exploration', cov, ASSUME, violations=len(v.violations))
        return rc
    finally:
        shutil.rmtree(work, ignore_errors=True)


def replay_file(prop, path):
    with open(path) as fh:
        p = json.load(fh)
    if not p.get('input_hex'):
        print('no input recorded in %s' % path)
        return 0
    work = tempfile.mkdtemp(prefix='vdec_')
    try:
        with mp.get_context('fork').Pool(1) as pool:
            pool.apply(_work, ((0, [(0, p['entry_point'], p['input_hex'], 'replay')], work),))
        nd = os.path.join(work, 'dec_0000.ndjson')
        rej, _ = validate(nd)
        v = common.Verdict(PROP)
        for r in rej:
            v.reject(r['clause'], {'ep': r['pst'], 'cls': 'replay'}, p, 'replayed')
        return v.finish()
    finally:
        shutil.rmtree(work, ignore_errors=True)
