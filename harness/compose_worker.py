"""Worker side of C15: run the real list decoders on a, b and a||b (and on permuted / TLV-inserted variants)."""
import os
import sys
import json
import struct

REPO = os.environ.get('VERIF_REPO', '/repo')
if REPO not in sys.path:
    sys.path.insert(0, REPO)
import logging                                   # noqa: E402
logging.disable(logging.CRITICAL)
import decoder_worker as D                       # noqa: E402  (imports all decoders)
from decoder_worker import (Update, Open, LinkState, BGPPrefixSID, BGPLS, MpReachNLRI, IPv6Unicast, IPv4MPLSVPN, IPv6MPLSVPN,
                            IPv4LabeledUnicast, IPv6LabeledUnicast, EVPN, ASPath, Community, ExtCommunity, LargeCommunity, ClusterList)


def canon(x):
    return json.dumps(x, sort_keys=True, default=repr)


def items(lst):
    return [canon(e) for e in lst]


def caps_items(d):
    """capability dict of Open.parse -> order-independent list of items (list-valued capabilities one item per element)"""
    out = []
    for k, v in (d or {}).items():
        if isinstance(v, list):
            out += [canon([k, e]) for e in v]
        else:
            out.append(canon([k, v]))
    return sorted(set(out))      # a capability dict has no duplicates: compare as sets


def open_caps(capbytes_list):
    params = b''.join(struct.pack('!BB', 2, len(c)) + c for c in capbytes_list)
    body = struct.pack('!BHHIB', 4, 65002, 90, 0x0a000002, len(params)) + params
    return caps_items(Open().parse(body)['capabilities'])


def fs_rules(b):
    v = struct.pack('!HBB', 1, 133, 0) + b'\x00' + b
    return MpReachNLRI.parse(v)['nlri']


def fs_rules_un(b):
    from yabgp.message.attribute.mpunreachnlri import MpUnReachNLRI
    v = struct.pack('!HB', 1, 133) + b
    return MpUnReachNLRI.parse(v)['withdraw']


def _IPv4Unicast():
    from yabgp.message.attribute.nlri.ipv4_unicast import IPv4Unicast
    return IPv4Unicast


def _srv6_subs(tlv_type, head, b):
    """the sub-TLV list of an SRv6 End.X SID (1106) / SRv6 Locator (1162) TLV of the BGP-LS attribute, decoded through
    LinkState.unpack: b is the concatenation of the sub-TLVs"""
    v = bytes(head) + b
    r = LinkState.unpack(struct.pack('!HH', tlv_type, len(v)) + v, bgpls_pro_id=2).dict()[29]
    assert len(r) == 1, r
    body = r[0].get('value', r[0])
    for k, val in (body.items() if isinstance(body, dict) else []):
        if k == 'sub_tlvs':
            return val
    # the TLV's dictionary has one key (its name) holding the fields
    for val in r[0].values():
        if isinstance(val, dict) and 'sub_tlvs' in val:
            return val['sub_tlvs']
    raise AssertionError('no sub_tlvs in %r' % (r,))


DECODERS = {
    'v4prefix': lambda b: items(Update.parse_prefix_list(b)),
    'v6prefix': lambda b: items(IPv6Unicast.parse(b)),
    # the second IPv4 prefix-list decoder (IPv4 unicast inside MP_REACH_NLRI / MP_UNREACH_NLRI), and both with add-path identifiers
    'v4mp': lambda b: items(_IPv4Unicast().parse(b)),
    'v4mp_ap': lambda b: items(_IPv4Unicast().parse(b, addpath=True)),
    'v4prefix_ap': lambda b: items(Update.parse_prefix_list(b, True)),
    'lu4': lambda b: items(IPv4LabeledUnicast.parse(b)),
    'lu6': lambda b: items(IPv6LabeledUnicast.parse(b)),
    'vpn4': lambda b: items(IPv4MPLSVPN.parse(b)),
    'vpn6': lambda b: items(IPv6MPLSVPN.parse(b)),
    'evpn': lambda b: items(EVPN.parse(b)),
    'fsrule': lambda b: items(fs_rules(b)),
    'fsrule_un': lambda b: items(fs_rules_un(b)),
    'comm': lambda b: items(Community.parse(b)),
    'extcomm': lambda b: items(ExtCommunity.parse(b)),
    'large': lambda b: items(LargeCommunity.parse(b)),
    'cluster': lambda b: items(ClusterList.parse(b)),
    'asseg4': lambda b: items(ASPath.parse(b, asn4=True)),
    'asseg2': lambda b: items(ASPath.parse(b, asn4=False)),
    'lstlv': lambda b: items(LinkState.unpack(b, bgpls_pro_id=2).dict()[29]),
    'sidtlv': lambda b: items(BGPPrefixSID.unpack(b).dict()[40] if hasattr(BGPPrefixSID.unpack(b), 'dict') else BGPPrefixSID.unpack(b)),
    'lsnlri': lambda b: items(BGPLS.parse(b)),
    'srv6loc_sub': lambda b: items(_srv6_subs(1162, [0] * 8, b)),
    'srv6endx_sub': lambda b: items(_srv6_subs(1106, [0, 1, 0, 0, 0, 0] + [32, 1, 13, 184] + [0] * 12, b)),
    'pathattr': lambda b: sorted(canon([k, v]) for k, v in Update.parse_attributes(b, True).items()),
    'pathattr2': lambda b: sorted(canon([k, v]) for k, v in Update.parse_attributes(b, False).items()),
}


def decode(kind, parts):
    if kind == 'cap':
        return open_caps(parts)
    return DECODERS[kind](b''.join(parts))


def run(job):
    ident, mode, kind, cls, parts_hex, extra = job
    parts = [bytes.fromhex(h) for h in parts_hex]
    line = {'id': ident, 'mode': mode, 'list': kind, 'cls': cls, 'lhs': [], 'rhs': [], 'parts_ok': False, 'raised': False, 'err': ''}
    try:
        if mode == 'concat':
            seps = []
            for p in parts:
                d = decode(kind, [p])
                seps.append(d)
            line['parts_ok'] = all(len(d) >= 1 for d in seps)
            line['rhs'] = [e for d in seps for e in d]
            if kind == 'cap':
                line['rhs'] = sorted(set(line['rhs']))
        elif mode == 'perm':
            line['rhs'] = decode(kind, [bytes.fromhex(h) for h in extra['orig']])
            line['parts_ok'] = True
        else:       # insert: parts = a, unknown, b ; expectation = decode(a) + decode(b)
            da, db = decode(kind, [parts[0]]), decode(kind, [parts[2]])
            line['parts_ok'] = len(da) >= 1 and len(db) >= 1
            line['rhs'] = da + db if kind not in ('cap', 'pathattr', 'pathattr2') else sorted(set(da + db))
    except Exception as e:
        line['err'] = 'separate decode raised %r' % (e,)
        return line
    try:
        lhs = decode(kind, parts)
        if mode == 'insert':
            du = decode(kind, [parts[1]])
            for e in du:                      # take the unknown element's own decoding out again
                if e in lhs:
                    lhs.remove(e)
        line['lhs'] = lhs
    except Exception as e:
        line['raised'] = True
        line['err'] = repr(e)[:160]
    return line


def work(args):
    k, jobs, outdir = args
    path = os.path.join(outdir, 'cmp_%04d.ndjson' % k)
    with open(path, 'w') as fh:
        for job in jobs:
            fh.write(json.dumps(run(job), separators=(',', ':')) + '\n')
    return path, len(jobs)
