class AlreadyCalled(ValueError): pass
class AlreadyCancelled(ValueError): pass
class ConnectionDone(Exception): pass
class ConnectionLost(Exception): pass
class ConnectionRefusedError(Exception): pass
class TimeoutError(Exception): pass
