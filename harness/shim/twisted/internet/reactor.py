"""Virtual-time stand-in for twisted.internet.reactor: never runs anything by itself."""
from . import error
class _World(object):
    def __init__(self): self.reset()
    def reset(self):
        self.now = 0.0; self.calls = []; self.connectors = []; self.errors = []
W = _World()
class DelayedCall(object):
    def __init__(self, t, f, a, kw): self.time, self.f, self.a, self.kw = t, f, a, kw; self.called = self.cancelled = False
    def cancel(self):
        if self.cancelled: raise error.AlreadyCancelled()
        if self.called: raise error.AlreadyCalled()
        self.cancelled = True
    def reset(self, s):
        if self.cancelled: raise error.AlreadyCancelled()
        if self.called: raise error.AlreadyCalled()
        self.time = W.now + s
    def active(self): return not (self.cancelled or self.called)
    def fire(self):
        assert self.active()
        self.called = True
        try: self.f(*self.a, **self.kw)
        except Exception as e: W.errors.append(repr(e))
def callLater(s, f, *a, **kw):
    dc = DelayedCall(W.now + s, f, a, kw); W.calls.append(dc); return dc
def callFromThread(f, *a, **kw): f(*a, **kw)
class Addr(object):
    def __init__(self, host, port): self.host, self.port = host, port
class Reason(object):
    def __init__(self, e): self.value = e
    def getErrorMessage(self): return repr(self.value)
class Transport(object):
    def __init__(self, connector): self.connector = connector; self.connected = 1; self.disconnecting = 0; self.written = []
    def setTcpNoDelay(self, x): pass
    def getHost(self): return Addr('10.0.0.1', 40000)
    def getHandle(self): raise NotImplementedError
    def write(self, data):
        if not isinstance(data, bytes): raise TypeError('Data must be bytes')
        if not self.connected: return
        self.written.append(data)
    def loseConnection(self):
        if self.connected and not self.disconnecting: self.disconnecting = 1
class Connector(object):
    def __init__(self, host, port, factory, timeout, bindAddress):
        self.host, self.port, self.factory, self.timeout = host, port, factory, timeout
        self.state = 'connecting'; self.transport = None; self.protocol = None; self.deadline = W.now + timeout
    def succeed(self):
        assert self.state == 'connecting'
        self.state = 'connected'
        self.protocol = self.factory.buildProtocol(Addr(self.host, self.port))
        self.transport = Transport(self)
        self.protocol.makeConnection(self.transport)
    def fail(self, exc):
        assert self.state == 'connecting'
        self.state = 'disconnected'
        self.factory.clientConnectionFailed(self, Reason(exc))
    def lose(self, exc):
        assert self.state == 'connected'
        self.state = 'disconnected'
        self.transport.connected = 0
        self.protocol.connectionLost(Reason(exc))
        self.factory.clientConnectionLost(self, Reason(exc))
def connectTCP(host, port, factory, timeout=30, bindAddress=None):
    c = Connector(host, port, factory, timeout, bindAddress); W.connectors.append(c); return c
def suggestThreadPoolSize(n): pass
