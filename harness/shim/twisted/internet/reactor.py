"""Virtual-time stand-in for twisted.internet.reactor (environment model, DESIGN.md section 7, T1-T6).

It never runs anything by itself: the driver fires timers, resolves connection attempts,
delivers data and completes closes explicitly, so every schedule is reproducible.
"""
from . import error


class _World(object):
    def __init__(self):
        self.reset()

    def reset(self):
        self.local_hosts = None
        self.sockopt_fail = None
        self.nodelay_fail = None
        self.now = 0.0
        self.calls = []        # every DelayedCall ever created (pending ones are .active())
        self.connectors = []   # every connectTCP call, in order
        self.errors = []       # exceptions that escaped a reactor callback
        self.listening = []
        self.ran = False


W = _World()


class DelayedCall(object):
    def __init__(self, t, f, a, kw):
        self.time, self.f, self.a, self.kw = t, f, a, kw
        self.called = self.cancelled = False

    def cancel(self):
        if self.cancelled:
            raise error.AlreadyCancelled()
        if self.called:
            raise error.AlreadyCalled()
        self.cancelled = True

    def reset(self, s):
        if self.cancelled:
            raise error.AlreadyCancelled()
        if self.called:
            raise error.AlreadyCalled()
        self.time = W.now + s

    def active(self):
        return not (self.cancelled or self.called)

    def getTime(self):
        return self.time

    def fire(self):
        assert self.active()
        self.called = True
        try:
            self.f(*self.a, **self.kw)
        except Exception as e:      # Twisted logs it and carries on
            W.errors.append(repr(e))


def callLater(s, f, *a, **kw):
    dc = DelayedCall(W.now + s, f, a, kw)
    W.calls.append(dc)
    return dc


def callFromThread(f, *a, **kw):
    # assumption A-REST: REST handlers are atomic w.r.t. reactor callbacks
    f(*a, **kw)


def seconds():
    return W.now


class Addr(object):
    def __init__(self, host, port):
        self.host, self.port = host, port


class Reason(object):
    def __init__(self, e):
        self.value = e

    def getErrorMessage(self):
        return repr(self.value)

    def check(self, *types):
        return isinstance(self.value, types)


class Transport(object):
    def __init__(self, connector, local):
        self.connector = connector
        self.local = local
        self.connected = 1
        self.disconnecting = 0
        self.written = []      # [(virtual time, bytes)]

    def setTcpNoDelay(self, x):
        bad = getattr(W, 'nodelay_fail', None)       # fault injection: connections on which the socket option call fails
        if bad and (bad == 'all' or self.connector.index in bad):
            raise OSError(22, 'Invalid argument')

    def getHost(self):
        # the harness may script what the socket reports per connection (W.local_hosts: address, or 'raise')
        hosts = getattr(W, 'local_hosts', None)
        if hosts:
            h = hosts[min(self.connector.index - 1, len(hosts) - 1)] if hasattr(self.connector, 'index') else hosts[-1]
            if h == 'raise':
                raise OSError('getsockname failed')
            return Addr(h, 40000 + len(W.connectors))
        return Addr(self.local, 40000 + len(W.connectors))

    def getPeer(self):
        return Addr(self.connector.host, self.connector.port)

    def getHandle(self):
        raise NotImplementedError

    def write(self, data):
        if not isinstance(data, (bytes, bytearray)):
            raise TypeError('Data must be bytes')
        if not self.connected:
            return                      # T3: silently dropped
        self.written.append((W.now, bytes(data)))

    def writeSequence(self, seq):
        for d in seq:
            self.write(d)

    def loseConnection(self):
        if self.connected and not self.disconnecting:
            self.disconnecting = 1

    def abortConnection(self):
        self.loseConnection()


class _Socket(object):
    def __init__(self, connector):
        self.connector = connector
        self.options = []

    def setsockopt(self, level, opt, value):
        # fault injection: W.sockopt_fail = set of connector indexes (or 'all') for which the call fails
        bad = getattr(W, 'sockopt_fail', None)
        if bad and (bad == 'all' or self.connector.index in bad):
            raise OSError(92, 'Protocol not available')
        self.options.append((level, opt, value))


class _PendingTransport(object):
    def __init__(self, connector):
        self.connector = connector
        self.sock = _Socket(connector)

    def getHandle(self):
        return self.sock


class Connector(object):
    def __init__(self, host, port, factory, timeout, bindAddress):
        self.host, self.port, self.factory, self.timeout = host, port, factory, timeout
        self.bindAddress = bindAddress
        self.state = 'connecting'
        self.transport = None
        self.protocol = None
        self.created = W.now
        self.deadline = W.now + timeout
        self.aborted = False       # stopConnecting()/disconnect() called by the application

    # -- application side (Twisted IConnector)
    def stopConnecting(self):
        if self.state != 'connecting':
            raise error.NotConnectingError()
        self.state = 'disconnected'
        self.aborted = True
        self.factory.clientConnectionFailed(self, Reason(error.UserError()))

    def disconnect(self):
        if self.state == 'connecting':
            self.stopConnecting()
        elif self.state == 'connected':
            self.transport.loseConnection()

    def getDestination(self):
        return Addr(self.host, self.port)

    # -- environment side (driven by the harness)
    def succeed(self):
        assert self.state == 'connecting'
        self.state = 'connected'
        self.protocol = self.factory.buildProtocol(Addr(self.host, self.port))
        local = self.bindAddress[0] if self.bindAddress else '10.0.0.1'
        self.transport = Transport(self, local)
        try:
            self.protocol.makeConnection(self.transport)
        except Exception as e:
            W.errors.append(repr(e))

    def fail(self, exc):
        assert self.state == 'connecting'
        self.state = 'disconnected'
        try:
            self.factory.clientConnectionFailed(self, Reason(exc))
        except Exception as e:
            W.errors.append(repr(e))

    def lose(self, exc):
        assert self.state == 'connected'
        self.state = 'disconnected'
        self.transport.connected = 0
        try:
            self.protocol.connectionLost(Reason(exc))
        except Exception as e:
            W.errors.append(repr(e))
        try:
            self.factory.clientConnectionLost(self, Reason(exc))
        except Exception as e:
            W.errors.append(repr(e))

    def deliver(self, data):
        assert self.state == 'connected'
        try:
            self.protocol.dataReceived(data)
        except Exception as e:
            W.errors.append(repr(e))


def connectTCP(host, port, factory, timeout=30, bindAddress=None):
    c = Connector(host, port, factory, timeout, bindAddress)
    W.connectors.append(c)
    c.index = len(W.connectors)
    c.transport = _PendingTransport(c)        # like Twisted's Client: exists (with its socket) while connecting
    c.pending_sock = c.transport.sock         # kept: the harness asks whether this attempt carries the TCP-MD5 option
    try:
        factory.startedConnecting(c)
    except AttributeError:
        pass
    return c


def listenTCP(port, factory, backlog=50, interface=''):
    W.listening.append((port, interface))
    return None


def suggestThreadPoolSize(n):
    pass


def getThreadPool():
    return None


def run(*a, **kw):
    W.ran = True


def stop():
    pass
