"""Virtual-time stand-in for twisted.internet.reactor (environment model, DESIGN.md section 7, T1-T6).

It never runs anything by itself: the driver fires timers, resolves connection attempts,
delivers data and completes closes explicitly, so every schedule is reproducible.
"""
from . import error


class _World(object):
    def __init__(self):
        self.reset()

    def reset(self):
        self.now = 0.0
        self.calls = []        # every DelayedCall ever created (pending ones are .active())
        self.connectors = []   # every connectTCP call, in order
        self.errors = []       # exceptions that escaped a reactor callback
        self.listening = []
        self.ran = False


W = _World()


class DelayedCall(object):
    def __init__(self, t, f, a, kw):
        self.time, self.f, self.a, self.kw = t, f, a, kw
        self.called = self.cancelled = False

    def cancel(self):
        if self.cancelled:
            raise error.AlreadyCancelled()
        if self.called:
            raise error.AlreadyCalled()
        self.cancelled = True

    def reset(self, s):
        if self.cancelled:
            raise error.AlreadyCancelled()
        if self.called:
            raise error.AlreadyCalled()
        self.time = W.now + s

    def active(self):
        return not (self.cancelled or self.called)

    def getTime(self):
        return self.time

    def fire(self):
        assert self.active()
        self.called = True
        try:
            self.f(*self.a, **self.kw)
        except Exception as e:      # Twisted logs it and carries on
            W.errors.append(repr(e))


def callLater(s, f, *a, **kw):
    dc = DelayedCall(W.now + s, f, a, kw)
    W.calls.append(dc)
    return dc


def callFromThread(f, *a, **kw):
    # assumption A-REST: REST handlers are atomic w.r.t. reactor callbacks
    f(*a, **kw)


def seconds():
    return W.now


class Addr(object):
    def __init__(self, host, port):
        self.host, self.port = host, port


class Reason(object):
    def __init__(self, e):
        self.value = e

    def getErrorMessage(self):
        return repr(self.value)

    def check(self, *types):
        return isinstance(self.value, types)


class Transport(object):
    def __init__(self, connector, local):
        self.connector = connector
        self.local = local
        self.connected = 1
        self.disconnecting = 0
        self.written = []      # [(virtual time, bytes)]

    def setTcpNoDelay(self, x):
        pass

    def getHost(self):
        return Addr(self.local, 40000 + len(W.connectors))

    def getPeer(self):
        return Addr(self.connector.host, self.connector.port)

    def getHandle(self):
        raise NotImplementedError

    def write(self, data):
        if not isinstance(data, (bytes, bytearray)):
            raise TypeError('Data must be bytes')
        if not self.connected:
            return                      # T3: silently dropped
        self.written.append((W.now, bytes(data)))

    def writeSequence(self, seq):
        for d in seq:
            self.write(d)

    def loseConnection(self):
        if self.connected and not self.disconnecting:
            self.disconnecting = 1

    def abortConnection(self):
        self.loseConnection()


class Connector(object):
    def __init__(self, host, port, factory, timeout, bindAddress):
        self.host, self.port, self.factory, self.timeout = host, port, factory, timeout
        self.bindAddress = bindAddress
        self.state = 'connecting'
        self.transport = None
        self.protocol = None
        self.created = W.now
        self.deadline = W.now + timeout
        self.aborted = False       # stopConnecting()/disconnect() called by the application

    # -- application side (Twisted IConnector)
    def stopConnecting(self):
        if self.state != 'connecting':
            raise error.NotConnectingError()
        self.state = 'disconnected'
        self.aborted = True
        self.factory.clientConnectionFailed(self, Reason(error.UserError()))

    def disconnect(self):
        if self.state == 'connecting':
            self.stopConnecting()
        elif self.state == 'connected':
            self.transport.loseConnection()

    def getDestination(self):
        return Addr(self.host, self.port)

    # -- environment side (driven by the harness)
    def succeed(self):
        assert self.state == 'connecting'
        self.state = 'connected'
        self.protocol = self.factory.buildProtocol(Addr(self.host, self.port))
        local = self.bindAddress[0] if self.bindAddress else '10.0.0.1'
        self.transport = Transport(self, local)
        try:
            self.protocol.makeConnection(self.transport)
        except Exception as e:
            W.errors.append(repr(e))

    def fail(self, exc):
        assert self.state == 'connecting'
        self.state = 'disconnected'
        try:
            self.factory.clientConnectionFailed(self, Reason(exc))
        except Exception as e:
            W.errors.append(repr(e))

    def lose(self, exc):
        assert self.state == 'connected'
        self.state = 'disconnected'
        self.transport.connected = 0
        try:
            self.protocol.connectionLost(Reason(exc))
        except Exception as e:
            W.errors.append(repr(e))
        try:
            self.factory.clientConnectionLost(self, Reason(exc))
        except Exception as e:
            W.errors.append(repr(e))

    def deliver(self, data):
        assert self.state == 'connected'
        try:
            self.protocol.dataReceived(data)
        except Exception as e:
            W.errors.append(repr(e))


def connectTCP(host, port, factory, timeout=30, bindAddress=None):
    c = Connector(host, port, factory, timeout, bindAddress)
    W.connectors.append(c)
    try:
        factory.startedConnecting(c)
    except AttributeError:
        pass
    return c


def listenTCP(port, factory, backlog=50, interface=''):
    W.listening.append((port, interface))
    return None


def suggestThreadPoolSize(n):
    pass


def getThreadPool():
    return None


def run(*a, **kw):
    W.ran = True


def stop():
    pass
