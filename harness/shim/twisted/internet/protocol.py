"""Stand-in for twisted.internet.protocol (only what yabgp uses)."""


class Protocol(object):
    transport = None
    factory = None
    connected = 0

    def makeConnection(self, transport):
        self.connected = 1
        self.transport = transport
        self.connectionMade()

    def connectionMade(self):
        pass

    def dataReceived(self, data):
        pass

    def connectionLost(self, reason):
        pass


class Factory(object):
    protocol = None

    def buildProtocol(self, addr):
        p = self.protocol()
        p.factory = self
        return p

    def startedConnecting(self, connector):
        pass

    def clientConnectionFailed(self, connector, reason):
        pass

    def clientConnectionLost(self, connector, reason):
        pass


class ClientFactory(Factory):
    pass
