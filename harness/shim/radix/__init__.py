"""Stand-in for py-radix (not installable here): exact and longest-prefix match over IPv4/IPv6 prefixes."""
import ipaddress


class _Node(object):
    def __init__(self, net):
        self.network = str(net.network_address)
        self.prefixlen = net.prefixlen
        self.prefix = '%s/%d' % (self.network, self.prefixlen)
        self.family = 2 if net.version == 4 else 10
        self.data = {}


def _net(p):
    return ipaddress.ip_network(p, strict=False)


class Radix(object):
    def __init__(self):
        self._d = {}

    def add(self, network=None, masklen=None, packed=None):
        n = _net(network if masklen is None else '%s/%d' % (network, masklen))
        if n not in self._d:
            self._d[n] = _Node(n)
        return self._d[n]

    def delete(self, network=None, masklen=None, packed=None):
        n = _net(network if masklen is None else '%s/%d' % (network, masklen))
        if n not in self._d:
            raise KeyError('match not found')
        del self._d[n]

    def search_exact(self, network=None, masklen=None, packed=None):
        n = _net(network if masklen is None else '%s/%d' % (network, masklen))
        return self._d.get(n)

    def search_best(self, network=None, masklen=None, packed=None):
        n = _net(network if masklen is None else '%s/%d' % (network, masklen))
        best = None
        for k, node in self._d.items():
            if k.version == n.version and k.prefixlen <= n.prefixlen and n.subnet_of(k):
                if best is None or k.prefixlen > best[0].prefixlen:
                    best = (k, node)
        return best[1] if best else None

    def search_worst(self, network=None, masklen=None, packed=None):
        n = _net(network if masklen is None else '%s/%d' % (network, masklen))
        worst = None
        for k, node in self._d.items():
            if k.version == n.version and k.prefixlen <= n.prefixlen and n.subnet_of(k):
                if worst is None or k.prefixlen < worst[0].prefixlen:
                    worst = (k, node)
        return worst[1] if worst else None

    def nodes(self):
        return list(self._d.values())

    def prefixes(self):
        return [n.prefix for n in self._d.values()]

    def __contains__(self, key):
        # environment assumption T9 (DESIGN.md 7): `address in tree` is what yabgp's BGP.ip_longest_match presumes it to be,
        # "some stored prefix covers it"
        try:
            return self.search_best(key) is not None
        except ValueError:
            return False

    def __iter__(self):
        return iter(self._d.values())
