class Radix(object):
    def __init__(self): self.d = {}
    def add(self, p): self.d[p] = True
    def delete(self, p): self.d.pop(p, None)
    def search_exact(self, p): return self.d.get(p)
    def search_best(self, p): return None
    def __contains__(self, p): return p in self.d
