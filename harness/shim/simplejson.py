from json import *
