"""Shared plumbing: evidence files, known findings, verdict lines, exit codes (DESIGN.md 2.3, 8)."""
import os
import sys
import json
import time

VERIF = os.path.dirname(os.path.dirname(os.path.abspath(__file__)))
OUT = os.path.join(VERIF, 'out')
EVID = os.environ.get('VERIF_EVIDENCE_DIR') or os.path.join(VERIF, 'evidence')
KNOWN = os.path.join(VERIF, 'known_findings.json')
PY = '/venv/bin/python'
T0 = time.perf_counter()


def seed():
    try:
        return int(os.environ.get('VERIF_SEED', '0'))
    except ValueError:
        return 0


def load_known():
    if not os.path.exists(KNOWN):
        return []
    with open(KNOWN) as fh:
        return [f for f in json.load(fh).get('entries', [])]


def match_known(prop, clause, sig):
    """A rejection is a known finding iff an entry with status 'finding' for this property and clause matches
    every key of its signature.  'fixed' entries suppress nothing."""
    for f in load_known():
        if f.get('status') != 'finding' or f.get('property') != prop or f.get('clause') != clause:
            continue
        if all(sig.get(k) == v for k, v in f.get('sig', {}).items()):
            return f
    return None


def write_replay(prop, name, payload):
    os.makedirs(OUT, exist_ok=True)
    safe = ''.join(ch if ch.isalnum() or ch in '._-' else '_' for ch in name)[:120]
    p = os.path.join(OUT, 'replay_%s_%s.json' % (prop, safe))
    with open(p, 'w') as fh:
        json.dump(payload, fh, indent=1, default=repr)
    return p


class Verdict(object):
    """Collects violations / known findings for one property run and prints the contract lines."""

    def __init__(self, prop):
        self.prop = prop
        self.violations = []      # (clause, sig, replay path)
        self.known = {}           # what -> count
        self.notes = []

    def reject(self, clause, sig, replay_payload, detail=''):
        f = match_known(self.prop, clause, sig)
        if f is not None:
            self.known[f['what']] = self.known.get(f['what'], 0) + 1
            return False
        key = (clause, json.dumps(sig, sort_keys=True))
        for v in self.violations:
            if v[0] == key:
                v[3].append(detail)
                return True
        path = write_replay(self.prop, clause + '_' + '_'.join(str(v) for v in sig.values()), replay_payload)
        self.violations.append((key, sig, path, [detail]))
        return True

    def finish(self):
        for what, n in sorted(self.known.items()):
            print('KNOWN-FINDING: property=%s %s (%d occurrence%s)' % (self.prop, what, n, '' if n == 1 else 's'))
        for key, sig, path, details in self.violations:
            print('VIOLATION property=%s replay=%s' % (self.prop, path))
            print('  clause=%s signature=%s occurrences=%d %s' % (key[0], json.dumps(sig, sort_keys=True), len(details),
                                                               details[0] if details and details[0] else ''))
        return 1 if self.violations else 0


def write_evidence(prop, tier, level, coverage, assumptions, violations=0):
    os.makedirs(EVID, exist_ok=True)
    ev = {'property_id': prop, 'tier': tier, 'seed': seed(), 'level': level, 'coverage': coverage,
          'assumptions': assumptions, 'wall_s': round(time.perf_counter() - T0, 2), 'violations': violations}
    with open(os.path.join(EVID, prop + '.json'), 'w') as fh:
        json.dump(ev, fh, indent=1, default=repr)
    return ev


def machinery_failure(msg):
    sys.stdout.flush()
    print('MACHINERY-FAILURE: ' + msg, file=sys.stderr)
    sys.exit(2)
