"""Scripted and randomized drivers of the real agent whose recorded traces are validated by TraceProps.tla:
C05 (configurations x session histories x peer OPEN variants), C10 (mutation / structure-aware fuzz in every
session state followed by a known-good probe).  Runs in worker processes (needs the shim)."""
import ast
import os
import json
import random
import struct
import world
import wire
from world import World, W
import replay_session as R

BUDGET = 600000


def canon(x):
    return json.dumps(x, sort_keys=True, default=repr)


# ----------------------------------------------------------------------------- helpers
def next_session(w, rec, limit=60):
    """Drive the environment until the agent has a fresh open connection (OPENSENT): finish closes, let the peer
    drop whatever is open, run timers, accept the next attempt."""
    for _ in range(limit):
        conns = [(i, W.connectors[i - 1]) for i in w.alive]
        pending = [i for i, k in conns if k.state == 'connecting']
        live = [i for i, k in conns if k.state == 'connected']
        if live:
            rec.step({'k': 'connLost', 'c': live[0]}, live[0])
            continue
        if pending:
            o = rec.step({'k': 'connOk', 'c': pending[0]}, pending[0])
            return pending[0] if o['st'] == 'OPENSENT' else None
        if w.due_calls():
            rec.step({'k': 'firedue', 'c': 0}, 0)
            continue
        if not w.pending_calls():
            return None
        rec.step({'k': 'tick', 'c': 0}, 0)
    return None


def first_session(w, rec):
    rec.step({'k': 'boot', 'c': 0}, 0)
    o = rec.step({'k': 'connOk', 'c': 1}, 1)
    return 1 if o['st'] == 'OPENSENT' else None


# ----------------------------------------------------------------------------- C03 (fine-grained time)
UNIT = 3000            # time units per second: H/3 seconds is a whole number of units for every whole hold time H


def due_units(w):
    """units until the next pending reactor call (None if nothing is pending)"""
    pc = [dc for dc in w.pending_calls()]
    if not pc:
        return None
    return max(0, int(round((min(dc.time for dc in pc) - W.now) / w.tick)))


def c03j_run(tid, wcfg, cfgline, seed):
    """One random schedule with a resolution of 1/3000 s: the peer's messages arrive at arbitrary instants, in
    particular just before / exactly at / just after the instants at which a keepalive or the hold timer is due
    (both orders at the same instant).  Every timer expiry and every stretch of time is its own recorded step."""
    rnd = random.Random(seed)
    w = World(wcfg)
    rec = R.Recorder(w, tid, cfgline)
    c = first_session(w, rec)
    if c is None:
        return rec.lines
    ph = rnd.choice([0, 3, 4, 5, 7, 8, 10, 11, 20, 30, 45, 47, 90, 180, 65535])     # every residue of H modulo 3
    # the timer contract does not depend on which capabilities the peer advertises
    pcaps = rnd.choice([None, None, ['mp', 'rr', 'as4', 'gr'], ['mp', 'as4', 'grf', 'llgr'], ['mp', 'rr', 'crr', 'err', 'as4', 'apx', 'xnh'], [], ['as4'],
                        ['mp', 'mp6', 'rr', 'as4', 'gr', 'llgr', 'err', 'unk']])
    o = rec.step(dict({'k': 'msg', 'c': c, 'm': 'OPEN', 'h': ph}, **({'caps': pcaps} if pcaps is not None else {})), c)
    if o['st'] != 'OPENCONFIRM':
        return rec.lines
    H = min(wcfg['hold'], ph)

    def advance(dt, deliver_first=None):
        while dt > 0 and rec.pre['st'] in ('OPENCONFIRM', 'ESTABLISHED'):
            du = due_units(w)
            d = dt if du is None else min(dt, du)
            if d > 0:
                rec.step({'k': 'tick', 'c': 0, 'n': d}, 0)
                dt -= d
            if w.due_calls():
                if dt == 0 and deliver_first is not None:
                    deliver_first()
                    deliver_first = None
                while w.due_calls() and rec.pre['st'] in ('OPENCONFIRM', 'ESTABLISHED'):
                    rec.step({'k': 'firedue', 'c': 0}, 0)
            elif d == 0:
                break
        if deliver_first is not None and rec.pre['st'] in ('OPENCONFIRM', 'ESTABLISHED'):
            deliver_first()

    # UPDATEs of unusual content are UPDATEs all the same: unknown AFI/SAFI in MP_REACH / MP_UNREACH, unknown attribute
    special = {
        'UPDMPX': wire.update(attrs=wire.attr(0x40, 1, b'\x00') + wire.attr(0x40, 2, b'') + wire.attr(0x90, 14, b'\x00\x63\x63\x04\x0a\x00\x00\x09\x00\x18\x0a\x01\x01')),
        'UPDMPUX': wire.update(attrs=wire.attr(0x90, 15, b'\x00\x63\x63\x18\x0a\x01\x01')),
        'UPDUNK': wire.update(attrs=wire.attr(0x40, 1, b'\x00') + wire.attr(0x40, 2, wire.as_path((65002,), True)) + wire.attr(0x40, 3, b'\x0a\x00\x00\x02') +
                              wire.attr(0xc0, 200, b'\x01\x02\x03'), nlri=wire.prefix4(24, b'\x0a\x01\x01')),
    }

    def deliver(name):
        def f():
            if rec.pre['trcs'] == 'open':
                if name == 'RESTSEND':
                    # the operator sends an UPDATE through REST: what the agent sends itself must not change its keepalive cadence
                    if rec.pre['st'] == 'ESTABLISHED':
                        rec.step({'k': 'rest', 'c': 0, 'rule': 'send/update', 'method': 'POST', 'cred': 'good', 'm': 'announce',
                                  'body': {'attr': {'1': 0, '2': [[2, [65001]]], '3': '10.0.0.1'}, 'nlri': ['10.77.0.0/16']}}, 0)
                elif name in special:
                    d = special[name]
                    rec.step({'k': 'data', 'c': c, 'hex': d.hex(), 'cls': 'UPD', 'm': name}, c, data=d, extra={'flen': len(d)})
                else:
                    rec.step({'k': 'msg', 'c': c, 'm': name}, c)
        return f
    advance(rnd.randint(0, UNIT), deliver('KA'))
    for _ in range(rnd.randint(10, 40)):
        if rec.pre['st'] not in ('OPENCONFIRM', 'ESTABLISHED'):
            break
        du = due_units(w)
        x = rnd.random()
        if x < 0.35 and du:
            dt = max(1, du + rnd.choice([-1, 0, 0, 1]))
        elif x < 0.55 and H > 0:
            dt = max(1, rnd.choice([H * UNIT // 3, H * UNIT, 2 * H * UNIT // 3]) + rnd.choice([-1, 0, 1]))
        elif x < 0.65:
            dt = rnd.randint(1, 3)
        else:
            dt = rnd.randint(1, max(2, (H if H else 60) * UNIT // 2))
        msg = rnd.choice(['KA', 'KA', 'UPD', 'UPDBAD', 'UPDMPX', 'UPDMPUX', 'UPDUNK', 'RR', 'RESTSEND', 'RESTSEND', None, None])
        advance(dt, deliver(msg) if msg else None)
    return rec.lines


def c03s_run(tid, wcfg, cfgline, wait_units):
    """C03, waiting for the peer's OPEN: the connection is up, the peer stays silent for `wait_units` (None: for ever, here
    320 s) and then sends its OPEN and a KEEPALIVE.  The limit in OpenSent is the fixed large hold time of 4 minutes whatever
    hold time is configured."""
    w = World(wcfg)
    rec = R.Recorder(w, tid, cfgline)
    c = first_session(w, rec)
    if c is None:
        return rec.lines
    left = wait_units if wait_units is not None else 320 * UNIT
    while left > 0 and rec.pre['st'] == 'OPENSENT':
        du = due_units(w)
        d = left if du is None else min(left, du)
        if d > 0:
            rec.step({'k': 'tick', 'c': 0, 'n': d}, 0)
            left -= d
        guard = 0
        while w.due_calls() and rec.pre['st'] == 'OPENSENT' and guard < 10:
            rec.step({'k': 'firedue', 'c': 0}, 0)
            guard += 1
        if d == 0 and not guard:
            break
    if wait_units is not None and rec.pre['st'] == 'OPENSENT' and rec.pre['trcs'] == 'open':
        o = rec.step({'k': 'msg', 'c': c, 'm': 'OPEN', 'h': 90}, c)
        if o['st'] == 'OPENCONFIRM':
            rec.step({'k': 'msg', 'c': c, 'm': 'KA'}, c)
    return rec.lines


def c03c_run(tid, wcfg, cfgline, ph, wait_units):
    """C03, waiting for the peer's first KEEPALIVE: OPENs are exchanged at once (peer proposes `ph`), then the peer stays
    silent in OpenConfirm for `wait_units` (None: until the agent gives up) and then sends KEEPALIVEs."""
    w = World(wcfg)
    rec = R.Recorder(w, tid, cfgline)
    c = first_session(w, rec)
    if c is None:
        return rec.lines
    o = rec.step({'k': 'msg', 'c': c, 'm': 'OPEN', 'h': ph}, c)
    if o['st'] != 'OPENCONFIRM':
        return rec.lines
    H = min(wcfg['hold'], ph)
    left = wait_units if wait_units is not None else (H + 30) * UNIT
    guard = 0
    while left > 0 and rec.pre['st'] == 'OPENCONFIRM' and guard < 5000:
        guard += 1
        du = due_units(w)
        d = left if du is None else min(left, du)
        if d > 0:
            rec.step({'k': 'tick', 'c': 0, 'n': d}, 0)
            left -= d
        n = 0
        while w.due_calls() and rec.pre['st'] == 'OPENCONFIRM' and n < 10:
            rec.step({'k': 'firedue', 'c': 0}, 0)
            n += 1
        if d == 0 and not n:
            break
    if wait_units is not None and rec.pre['st'] == 'OPENCONFIRM' and rec.pre['trcs'] == 'open':
        rec.step({'k': 'msg', 'c': c, 'm': 'KA'}, c)
    return rec.lines


def c03j_jobs(tier, seed):
    jobs = []
    n = 0
    for hold in (90, 300, 3600, 65535):
        for ph in (90, 300, 1000, 65535):
            H = min(hold, ph)
            for wait in (None, 230 * UNIT, 240 * UNIT - 1, 240 * UNIT, 240 * UNIT + 1, 250 * UNIT, (H - 1) * UNIT):
                if wait is not None and wait >= H * UNIT:
                    continue
                wcfg = dict(tick=1.0 / UNIT, tnum=1, tden=UNIT, crt=20, idle=20, hold=hold, las=65001, ras=65002)
                jobs.append(('c03c', wcfg, ph, wait))
    for hold in (0, 3, 90, 180, 239, 240, 241, 300, 3600, 65535):
        for wait in (None, 239 * UNIT, 240 * UNIT - 1, 240 * UNIT, 240 * UNIT + 1, 250 * UNIT, 300 * UNIT):
            wcfg = dict(tick=1.0 / UNIT, tnum=1, tden=UNIT, crt=20, idle=20, hold=hold, las=65001, ras=65002)
            jobs.append(('c03s', wcfg, wait))
    for hold in (0, 3, 4, 5, 10, 20, 45, 90, 180):
        for _ in range(35 if tier == 'quick' else 1500):
            wcfg = dict(tick=1.0 / UNIT, tnum=1, tden=UNIT, crt=20, idle=20, hold=hold, las=65001, ras=65002)
            jobs.append(('c03j', wcfg, seed * 1000003 + n))
            n += 1
    return jobs


# ----------------------------------------------------------------------------- C12 (fault: TCP-MD5 socket option fails)
def c12md5_run(tid, wcfg, cfgline, seed):
    """Random environment behaviour (not model-driven) with an MD5 password configured and the setsockopt(TCP_MD5SIG)
    call failing on chosen connection attempts: the exception leaves BGPPeering.connect() half-way.  Judged by the C12
    clauses only (one attempt / connection at a time, messages to the tracked connection, no orphan)."""
    rnd = random.Random(seed)
    w = World(wcfg)
    rec = R.Recorder(w, tid, cfgline)
    # in a third of the runs the operator is faster than the start-up call: manual start first, the start-up call arrives
    # some time later (whatever state the peering is in by then)
    late_boot = rnd.random() < 0.35 or bool(wcfg.get('late_boot'))
    rec.step({'k': 'start' if late_boot else 'boot', 'c': 0}, 0)
    if wcfg.get('late_boot'):
        # scripted opening: the attempt of the manual start is accepted (the configured fault hits this connection), the peer
        # stays silent, and only then the start-up call arrives
        pend = [i for i in w.alive if W.connectors[i - 1].state == 'connecting']
        if pend:
            rec.step({'k': 'connOk', 'c': pend[0]}, pend[0])
        if w.can({'k': 'boot'}):
            rec.step({'k': 'boot', 'c': 0}, 0)
    for _ in range(rnd.randint(15, 45)):
        if late_boot and w.can({'k': 'boot'}) and rnd.random() < 0.25:
            rec.step({'k': 'boot', 'c': 0}, 0)
            continue
        conns = [(i, W.connectors[i - 1]) for i in w.alive]
        pending = [i for i, k in conns if k.state == 'connecting']
        live = [i for i, k in conns if k.state == 'connected']
        closing = [i for i in live if W.connectors[i - 1].transport.disconnecting]
        opts = []
        if w.due_calls():
            opts += ['firedue'] * 3
        else:
            opts += ['tick'] * 3
        if pending:
            opts += ['connOk', 'connOk', 'connRefused']
        if closing:
            opts += ['connLost'] * 2
        if live:
            opts += ['connLost', 'open', 'ka']
        opts += ['stop', 'start'] if rnd.random() < 0.25 else []
        a = rnd.choice(opts)
        if a in ('firedue', 'tick', 'stop', 'start'):
            rec.step({'k': a, 'c': 0}, 0)
        elif a in ('connOk', 'connRefused'):
            c = rnd.choice(pending)
            rec.step({'k': a, 'c': c}, c)
        elif a == 'connLost':
            c = rnd.choice(closing or live)
            rec.step({'k': 'connLost', 'c': c}, c)
        else:
            c = rnd.choice(live)
            if not W.connectors[c - 1].transport.disconnecting:
                rec.step({'k': 'msg', 'c': c, 'm': 'OPEN' if a == 'open' else 'KA', 'h': 90}, c)
    return rec.lines


def c02r_run(tid, wcfg, cfgline, seed):
    """C02: a long run of failures of one kind (or mixed) from boot - refused attempts, TCP time-outs, resets right after
    the handshake, OPENs that are refused - and then a peer that behaves (R.coop_continue): nothing in the past, however
    often it happened, may delay or prevent the session."""
    rnd = random.Random(seed)
    w = World(wcfg)
    rec = R.Recorder(w, tid, cfgline)
    rec.step({'k': 'boot', 'c': 0}, 0)
    n = rnd.choice([0, 1, 2, 3, 4, 5, 6, 7, 8, 9, 11, 12, 13, 16, 20])
    kind = rnd.choice(['refused', 'refused', 'timeout', 'reset', 'badopen', 'mixed', 'notif', 'notif', 'notif'])
    # (kind notif: the peer answers our OPEN - or its own OPEN exchange - with a NOTIFICATION of some code / subcode)
    notif = rnd.choice([(6, sc) for sc in range(0, 12)] + [(2, 1), (2, 2), (2, 5), (2, 7), (1, 1), (3, 1), (4, 0), (5, 1), (7, 1), (9, 9)])
    notif_after_open = rnd.random() < 0.5
    if kind == 'notif':
        n = max(n, 1)
    done = guard = 0
    while done < n and guard < 4000:
        guard += 1
        conns = [(i, W.connectors[i - 1]) for i in w.alive]
        pending = [i for i, k in conns if k.state == 'connecting']
        live = [i for i, k in conns if k.state == 'connected']
        if live:
            rec.step({'k': 'connLost', 'c': live[0]}, live[0])
            continue
        if pending:
            c = pending[0]
            kd = kind if kind != 'mixed' else rnd.choice(['refused', 'timeout', 'reset', 'badopen'])
            if kd == 'refused':
                rec.step({'k': 'connRefused', 'c': c}, c)
                done += 1
            elif kd == 'timeout':
                if W.connectors[c - 1].deadline <= W.now + 1e-6:
                    rec.step({'k': 'tcpTimeout', 'c': c}, c)
                    done += 1
                elif w.due_calls():
                    rec.step({'k': 'firedue', 'c': 0}, 0)
                else:
                    rec.step({'k': 'tick', 'c': 0}, 0)
            elif kd == 'reset':
                rec.step({'k': 'connOk', 'c': c}, c)
                rec.step({'k': 'connLost', 'c': c}, c)
                done += 1
            elif kd == 'notif':
                o = rec.step({'k': 'connOk', 'c': c}, c)
                if o['st'] == 'OPENSENT' and notif_after_open:
                    o = rec.step({'k': 'msg', 'c': c, 'm': 'OPEN', 'h': 90}, c)
                if o['st'] in ('OPENSENT', 'OPENCONFIRM'):
                    d = wire.notification(notif[0], notif[1])
                    rec.step({'k': 'data', 'c': c, 'hex': d.hex(), 'cls': 'NOTIF', 'm': 'notif%d.%d' % notif}, c, data=d, extra={'flen': len(d)})
                done += 1
            else:
                o = rec.step({'k': 'connOk', 'c': c}, c)
                if o['st'] == 'OPENSENT':
                    rec.step({'k': 'msg', 'c': c, 'm': 'OPENBADAS'}, c)
                done += 1
            continue
        if w.due_calls():
            rec.step({'k': 'firedue', 'c': 0}, 0)
        elif w.pending_calls():
            rec.step({'k': 'tick', 'c': 0}, 0)
        else:
            break
    if w.p.fsm.allow_automatic_start and W.connectors:
        R.coop_continue(w, rec, cfgline.get('idle', 2), cfgline.get('hold', 60))
    return rec.lines


def c02r_jobs(tier, seed):
    jobs = []
    n = 0
    for wcfg in (dict(tick=10.0, crt=20, idle=20, hold=90, las=65001, ras=65002), dict(tick=10.0, crt=40, idle=20, hold=90, las=65001, ras=65002),
                 dict(tick=10.0, crt=30, idle=10, hold=90, las=65001, ras=65002), dict(tick=10.0, crt=20, idle=0, hold=30, las=65001, ras=65002)):
        for _ in range(70 if tier == 'quick' else 1500):
            jobs.append(('c02r', wcfg, seed * 1000003 + n))
            n += 1
    return jobs


def c13u_run(tid, wcfg, cfgline, seed):
    """C13 through the REST interface as operators use it: stops and starts in a row, the peer's address written in
    different (equivalent) ways in the URL, requests repeated; every stop stops, every start starts."""
    rnd = random.Random(seed)
    w = World(wcfg)
    rec = R.Recorder(w, tid, cfgline)
    spell = [None, '10.0.0.2', '10.0.0.02', '010.0.0.2', '10.0.0.2.', '10.0.000.2']
    c = first_session(w, rec)
    for _ in range(rnd.randint(3, 8)):
        # bring a session up when the peering is running
        if c is not None and rec.pre['st'] == 'OPENSENT' and rnd.random() < 0.9:
            o = rec.step({'k': 'msg', 'c': c, 'm': 'OPEN', 'h': 90}, c)
            if o['st'] == 'OPENCONFIRM' and rnd.random() < 0.9:
                rec.step({'k': 'msg', 'c': c, 'm': 'KA'}, c)
        rec.step({'k': 'stop', 'c': 0, 'peer': rnd.choice(spell)}, 0)
        if rnd.random() < 0.3:
            rec.step({'k': 'stop', 'c': 0, 'peer': rnd.choice(spell)}, 0)
        for i in [i for i in w.alive if W.connectors[i - 1].state == 'connected' and W.connectors[i - 1].transport.disconnecting]:
            if rnd.random() < 0.7:
                rec.step({'k': 'connLost', 'c': i}, i)
        if rnd.random() < 0.4:
            rec.step({'k': 'tick', 'c': 0}, 0)
        rec.step({'k': 'start', 'c': 0, 'peer': rnd.choice(spell)}, 0)
        pending = [i for i in w.alive if W.connectors[i - 1].state == 'connecting']
        c = None
        if pending:
            for i in [i for i in w.alive if W.connectors[i - 1].state == 'connected']:
                rec.step({'k': 'connLost', 'c': i}, i)
            o = rec.step({'k': 'connOk', 'c': pending[0]}, pending[0])
            c = pending[0] if o['st'] == 'OPENSENT' else None
    return rec.lines


def c13u_jobs(tier, seed):
    wcfg = dict(tick=10.0, crt=20, idle=20, hold=90, las=65001, ras=65002)
    return [('c13u', wcfg, seed * 1000003 + i) for i in range(60 if tier == 'quick' else 2000)]


def c12md5_jobs(tier, seed):
    jobs = []
    n = 0
    # faults in the application handler's callbacks and in the TCP_NODELAY socket option call
    faults = [dict(handler_fail={'send_open': [1]}), dict(handler_fail={'send_open': [2]}), dict(handler_fail={'send_open': [1, 2, 3]}),
              dict(handler_fail={'open_received': [1]}), dict(handler_fail={'keepalive_received': [1, 2]}), dict(handler_fail={'on_connection_lost': [1]}),
              dict(handler_fail={'on_established': [1]}), dict(nodelay_fail=[1]), dict(nodelay_fail=[2]), dict(nodelay_fail='all')]
    for f in faults:
        for j in range(12 if tier == 'quick' else 300):
            # connect-retry time below, equal to (yabgp's default) and above the 30 s TCP connect time-out
            wcfg = dict(tick=10.0, crt=(20, 30, 40)[j % 3], idle=20, hold=90, las=65001, ras=65002, **f)
            jobs.append(('c12md5', wcfg, seed * 1000003 + n))
            n += 1
    for f in (dict(handler_fail={'send_open': [1]}), dict(nodelay_fail=[1]), dict()):
        for crt in (20, 30):
            for _ in range(2 if tier == 'quick' else 40):
                wcfg = dict(tick=10.0, crt=crt, idle=20, hold=90, las=65001, ras=65002, late_boot=True, **f)
                jobs.append(('c12md5', wcfg, seed * 1000003 + n))
                n += 1
    for fail in ([1], [2], [1, 2], [1, 3, 5], 'all', []):
        for crt in (20, 40):
            for _ in range(25 if tier == 'quick' else 600):
                wcfg = dict(tick=10.0, crt=crt, idle=20, hold=90, las=65001, ras=65002, md5='secret', sockopt_fail=fail)
                jobs.append(('c12md5', wcfg, seed * 1000003 + n))
                n += 1
    return jobs


# ----------------------------------------------------------------------------- C05
def open_variants(ras):
    """(name, as2, as4, hold, caps, version, each, acc, esub)  acc: 1 accept, 2 reject with OPEN error subcode esub"""
    small = ras <= 65535
    as2 = ras if small else wire.AS_TRANS
    v = []
    for hold in (0, 3, 30, 90, 65535):
        v.append(('good-as4-h%d' % hold, as2, ras, hold, ('mp', 'rr', 'as4'), 4, True, 1, 0))
    if small:
        v.append(('good-noas4', ras, None, 90, ('mp', 'rr'), 4, True, 1, 0))
        v.append(('good-nocaps', ras, None, 90, (), 4, True, 1, 0))
        v.append(('good-packed', ras, ras, 90, ('mp', 'rr', 'crr', 'err', 'gr', 'as4', 'unk'), 4, False, 1, 0))
        v.append(('good-addpath-unknown-family', ras, ras, 90, ('mp', 'as4', 'apx'), 4, True, 1, 0))
        for ap in ('ap0', 'ap4', 'ap255', 'ap3'):
            v.append(('good-addpath-' + ap, ras, ras, 90, ('mp', 'as4', ap), 4, True, 1, 0))
        v.append(('bad-as2', ras + 1 if ras < 65535 else ras - 1, None, 90, ('mp',), 4, True, 2, 2))
        v.append(('bad-as4-disagrees', ras, ras + 1, 90, ('mp', 'as4'), 4, True, 2, 2))
        v.append(('bad-as4-zero', ras, 0, 90, ('mp', 'as4'), 4, True, 2, 2))          # the capability's value is the AS: 0 is not the remote AS
        v.append(('bad-as4-max', ras, 4294967295, 90, ('mp', 'as4'), 4, True, 2, 2))
    else:
        v.append(('good-packed', as2, ras, 90, ('mp', 'rr', 'crr', 'err', 'gr', 'as4', 'unk'), 4, False, 1, 0))
        v.append(('bad-astrans-nocap', wire.AS_TRANS, None, 90, ('mp',), 4, True, 2, 2))
        v.append(('bad-as4', as2, ras - 1, 90, ('mp', 'as4'), 4, True, 2, 2))
    v.append(('bad-version', as2, ras, 90, ('mp', 'as4'), 3, True, 2, 1))
    for ver in (0, 5, 6, 128, 255):            # "accepted iff its version is 4": every other value of the octet, not only smaller ones
        v.append(('bad-version%d' % ver, as2, ras, 90, ('mp', 'as4'), ver, True, 2, 1))
    v.append(('bad-version5-nocaps', as2 if small else wire.AS_TRANS, None if small else ras, 90, () if small else ('as4',), 5, True, 2, 1))
    v.append(('bad-hold1', as2, ras, 1, ('mp', 'as4'), 4, True, 2, 6))
    v.append(('bad-hold2', as2, ras, 2, ('mp', 'as4'), 4, True, 2, 6))
    return v


def open_event(c, var, bgp_id=0x0a000002):
    name, as2, as4, hold, caps, ver, each, acc, esub = var
    data = wire.open_msg2(as2, as4, hold, bgp_id=bgp_id, caps=caps, version=ver, one_param_each=each)
    cls = 'OPEN_OK' if acc == 1 else {1: 'OPEN_BADVER', 2: 'OPEN_BADAS', 6: 'OPEN_BADHOLD'}[esub]
    return ({'k': 'data', 'c': c, 'hex': data.hex(), 'cls': cls, 'h': hold, 'm': name}, data, {'acc': acc, 'esub': esub, 'flen': len(data)})


def as_probe(w, rec, c, ras, peer_as4, our_as4):
    four = bool(peer_as4 and our_as4)
    asns = [ras, 70000] if four else [ras if ras <= 65535 else wire.AS_TRANS, 64999]
    data = wire.simple_update(prefixes=((16, b'\x0a\x09'),), asns=tuple(asns), asn4=four)
    o = rec.step({'k': 'data', 'c': c, 'hex': data.hex(), 'cls': 'UPD_AS', 'm': '4' if four else '2'}, c, data=data,
                 extra={'flen': len(data)})
    got = None
    for name, payload in o['rep']:
        if name == 'update_received':
            got = payload.get('attr', {}).get(2)
    ok = got is not None and [list(x[1]) for x in got] == [asns] and [x[0] for x in got] == [2]
    rec.lines[-1]['aspathok'] = bool(ok)
    return ok


def c05_run(tid, wcfg, cfgline, history, final):
    """history: list of (variant, ending) for earlier sessions; final: variant for the observed session."""
    w = World(wcfg)
    rec = R.Recorder(w, tid, cfgline)
    c = first_session(w, rec)
    our_as4 = None
    # the peer's BGP identifier is not part of the acceptance policy: it changes from session to session in two of
    # three runs (A,B,C,... / A,A,B,B,... / always A)
    # ... and it takes values of every address class, the agent's own identifier among them (the policy of the property
    # is version, AS and hold time, nothing else)
    allids = (0x0a000002, 0x0a000003, 0xc0a80001, 0x00000000, 0xe0000005, 0xffffffff, 0x7f000001, 0x0a000001, 0xefffffff, 0xf0000000, 0x00000001, 0xa9fe0001)
    rot = (tid // 3) % len(allids)
    ids = tuple(allids[(rot + k) % len(allids)] for k in range(3))
    for si, (var, ending) in enumerate(history + [(final, 'observe')]):
        bgp_id = ids[(0, si % 3, ((si + 1) // 2) % 3)[tid % 3]]
        if c is None:
            break
        for ln in rec.lines[::-1]:
            opens = [o for o in ln.get('out', []) if o['type'] == 'OPEN'] if ln.get('k') != 'cfg' else []
            if opens:
                our_as4 = opens[-1].get('has_as4')
                break
        ev, data, extra = open_event(c, var, bgp_id)
        o = rec.step(ev, c, data=data, extra=extra)
        if o['st'] == 'OPENCONFIRM':
            o = rec.step({'k': 'msg', 'c': c, 'm': 'KA'}, c)
            if o['st'] == 'ESTABLISHED':
                as_probe(w, rec, c, wcfg['ras'], var[2] is not None, our_as4)
                if ending == 'tick':
                    rec.step({'k': 'tick', 'c': 0}, 0)
        if ending == 'observe':
            break
        if ending == 'stopstart':
            rec.step({'k': 'stop', 'c': 0}, 0)
            rec.step({'k': 'start', 'c': 0}, 0)
        c = next_session(w, rec)
    return rec.lines


C05_CONFIGS = [
    dict(las=65001, ras=65002, four_bytes_as=True),
    dict(las=65001, ras=65002, four_bytes_as=False),
    dict(las=65535, ras=65536, four_bytes_as=True),
    dict(las=65536, ras=65535, four_bytes_as=True),
    dict(las=4200000000, ras=4200000001, four_bytes_as=True),
    dict(las=65001, ras=65001, four_bytes_as=True),
    dict(las=1, ras=4294967295, four_bytes_as=True, caps=['route_refresh']),
    dict(las=70000, ras=65002, four_bytes_as=False, caps=[]),
    dict(las=65001, ras=23456, four_bytes_as=True),          # the configured remote AS is the AS_TRANS value itself
    dict(las=23456, ras=65002, four_bytes_as=True),
    dict(las=65001, ras=65002, four_bytes_as=True, add_path='ipv4_both', afi_safi=['ipv4', 'ipv6', 'flowspec']),
    # what the socket reports as the local address changes from connection to connection (the identifier must not)
    dict(las=65001, ras=65002, four_bytes_as=True, hosts=['raise', '10.0.0.1', '10.0.0.7']),
    dict(las=65001, ras=65002, four_bytes_as=True, hosts=['127.0.0.1', '10.0.0.1', '192.168.1.1']),
    dict(las=65001, ras=65002, four_bytes_as=True, hosts=['2001:db8::1', '10.0.0.1']),
    dict(las=65001, ras=65002, four_bytes_as=True, hosts=['10.0.0.9', '10.0.0.1', 'raise']),
    # the wildcard local address (the option's default): the identifier is taken from the first connection's local address and
    # stays, whatever address later connections leave from (a multi-homed host whose route to the peer changed)
    dict(las=65001, ras=65002, four_bytes_as=True, local_addr='0.0.0.0', hosts=['192.0.2.1', '198.51.100.7', '10.0.0.1']),
    dict(las=65001, ras=65002, four_bytes_as=True, local_addr='0.0.0.0', hosts=['198.51.100.7', '192.0.2.1', '198.51.100.7']),
    dict(las=65001, ras=65002, four_bytes_as=True, add_path='ipv4_receive', caps=['graceful_restart'], afi_safi=['ipv4', 'evpn']),
]


def c05_jobs(tier, seed):
    rnd = random.Random(seed)
    jobs = []
    cfgs = C05_CONFIGS if tier == 'thorough' else C05_CONFIGS[:5] + C05_CONFIGS[7:]
    for ci, cc in enumerate(cfgs):
        for hold in ((90, 0, 3) if tier == 'thorough' else (90, 0)):
            vs = open_variants(cc['ras'])
            for final in vs:
                hists = [[]]
                for var in (vs if tier == 'thorough' else rnd.sample(vs, 4)):
                    for ending in ('peerclose', 'stopstart') if tier == 'thorough' else (rnd.choice(['peerclose', 'stopstart']),):
                        hists.append([(var, ending)])
                if tier == 'thorough':
                    for _ in range(6):
                        hists.append([(rnd.choice(vs), rnd.choice(['peerclose', 'stopstart'])) for _ in range(rnd.choice([2, 3]))])
                else:
                    hists.append([(rnd.choice(vs), 'peerclose'), (rnd.choice(vs), 'peerclose')])
                for h in hists:
                    jobs.append(('c05', dict(cc, hold=hold), h, final))
    return jobs


# ----------------------------------------------------------------------------- C10
def test_literals(repo):
    """every bytes literal in the unit tests (seeds for the fuzzer)"""
    lits = set()
    root = os.path.join(repo, 'yabgp', 'tests')
    for dp, dn, fn in os.walk(root):
        for f in fn:
            if f.endswith('.py'):
                try:
                    tree = ast.parse(open(os.path.join(dp, f)).read())
                except Exception:
                    continue
                for node in ast.walk(tree):
                    if isinstance(node, ast.Constant) and isinstance(node.value, bytes) and 1 <= len(node.value) <= 4000:
                        lits.add(node.value)
    return sorted(lits)


def mutate(b, rnd):
    b = bytearray(b)
    op = rnd.randrange(7)
    if not b:
        return bytes([rnd.randrange(256)])
    if op == 0:
        i = rnd.randrange(len(b)); b[i] ^= 1 << rnd.randrange(8)
    elif op == 1:
        i = rnd.randrange(len(b)); b[i] = rnd.choice([0, 1, 0x7f, 0x80, 0xff])
    elif op == 2:
        del b[rnd.randrange(len(b)):]
    elif op == 3:
        i = rnd.randrange(len(b)); b[i:i] = bytes(rnd.randrange(256) for _ in range(rnd.randint(1, 4)))
    elif op == 4:
        i = rnd.randrange(len(b)); j = min(len(b), i + rnd.randint(1, 8)); del b[i:j]
    elif op == 5 and len(b) >= 4:      # edit one of the two UPDATE length fields
        i = rnd.choice([0, 2]); b[i:i + 2] = struct.pack('!H', rnd.choice([0, 1, len(b), len(b) - 3, len(b) + 1, 0xffff, rnd.randrange(64)]))
    else:
        i = rnd.randrange(len(b)); b[i] = (b[i] + rnd.choice([1, 255])) & 255
    return bytes(b)


def fuzz_inputs(repo, tier, seed):
    """[(cls, frame bytes)] deterministic for a seed"""
    rnd = random.Random(seed)
    lits = test_literals(repo)
    good_upd = wire.simple_update(med=5)[19:]
    good_open = wire.open_msg(65002, 90, caps=('mp', 'rr', 'as4', 'gr'))[19:]
    out = []
    # structure-aware: every literal as UPDATE body, as attribute block, as NLRI, as withdrawn block
    for lit in lits:
        if len(lit) > 3500:
            continue
        out.append(('FUZZ_UPD', wire.frame(2, lit)))
        out.append(('FUZZ_UPD', wire.update(attrs=lit)))
        out.append(('FUZZ_UPD', wire.update(attrs=good_upd[4:4 + struct.unpack('!H', good_upd[2:4])[0]], nlri=lit)))
        out.append(('FUZZ_UPD', wire.update(withdrawn=lit)))
        out.append(('FUZZ_OPEN', wire.frame(1, lit)))
    # exhaustive small classes
    for n in range(0, 6):
        out.append(('FUZZ_NOTIF', wire.frame(3, bytes(range(n)))))
        out.append(('FUZZ_RR', wire.frame(5, bytes(range(n)))))
        out.append(('FUZZ_RR', wire.frame(128, bytes(range(n)))))
        out.append(('FUZZ_KA', wire.frame(4, bytes(n))))
        out.append(('FUZZ_UPD', wire.frame(2, bytes(n))))
        out.append(('FUZZ_OPEN', wire.frame(1, bytes(range(n)))))
    for wl in (0, 1, 2, 3, 4, 5, 0xffff):
        for al in (0, 1, 3, 4, 0xffff):
            out.append(('FUZZ_UPD', wire.frame(2, struct.pack('!H', wl) + b'\x18\x0a\x01\x01'[:max(0, min(wl, 4))] + struct.pack('!H', al) + b'\x40\x01\x01\x00'[:max(0, min(al, 4))])))
            out.append(('FUZZ_UPD', wire.frame(2, struct.pack('!H', wl) + b'\x18\x0a\x01\x01')))
    for i in range(len(good_upd)):
        for val in (0, 0xff, good_upd[i] ^ 0x40):
            m = bytearray(good_upd); m[i] = val
            out.append(('FUZZ_UPD', wire.frame(2, bytes(m))))
        out.append(('FUZZ_UPD', wire.frame(2, good_upd[:i])))
    for i in range(len(good_open)):
        for val in (0, 0xff):
            m = bytearray(good_open); m[i] = val
            out.append(('FUZZ_OPEN', wire.frame(1, bytes(m))))
        out.append(('FUZZ_OPEN', wire.frame(1, good_open[:i])))
    # mutation-based
    seeds_u = [wire.frame(2, l)[19:] for l in lits[:400]] + [good_upd]
    n = 1500 if tier == 'quick' else 60000
    for _ in range(n):
        b = rnd.choice(seeds_u)
        for _ in range(rnd.randint(1, 3)):
            b = mutate(b, rnd)
        t = rnd.choice([2, 2, 2, 2, 1, 3, 5])
        cls = {1: 'FUZZ_OPEN', 2: 'FUZZ_UPD', 3: 'FUZZ_NOTIF', 5: 'FUZZ_RR'}[t]
        if len(b) <= 4077:
            out.append((cls, wire.frame(t, b)))
    for _ in range(50 if tier == 'quick' else 2000):
        out.append(('FUZZ_RAW', bytes(rnd.randrange(256) for _ in range(rnd.randint(1, 60)))))
    if tier == 'quick':
        head = [x for x in out if len(x[1]) < 600]
        rnd.shuffle(head)
        out = head[:2500]
    # every NOTIFICATION error code (assigned and not) x subcode, with and without data
    for code in list(range(0, 10)) + [255]:
        for sub in list(range(0, 13)) + [255]:
            out.append(('FUZZ_NOTIF', wire.frame(3, bytes([code, sub]))))
            if sub in (0, 1, 7):
                out.append(('FUZZ_NOTIF', wire.frame(3, bytes([code, sub]) + b'\x00\x04')))
    # TLC-enumerated grids of spec/WireTlv.tla: one capability / attribute / MP NLRI of every code x length x body pattern
    import check_decoders
    for fam, typ, cls in (('capgrid', 1, 'FUZZ_OPEN'), ('attrgrid', 2, 'FUZZ_UPD'), ('mpgrid', 2, 'FUZZ_UPD')):
        vecs = check_decoders.gen(fam, 1)['vecs']
        step = 1 if tier == 'thorough' or fam == 'capgrid' else 6
        for ep, hx in vecs[(seed % step)::step]:
            out.append((cls, wire.frame(typ, bytes.fromhex(hx))))
    return out


PROBE = wire.simple_update(prefixes=((24, b'\x0a\x2a\x2a'), (8, b'\x0b')), asns=(65002, 64512), asn4=True, med=77)


def _ls_update(sub_tlvs):
    """an UPDATE with a BGP-LS attribute (29) holding an SRv6 End.X SID TLV (1106) with the given sub-TLV octets"""
    endx = struct.pack('!HBBBB', 1, 0, 0, 0, 0) + bytes([0x20, 0x01, 0x0d, 0xb8] + [0] * 11 + [1]) + sub_tlvs
    ls = struct.pack('!HH', 1106, len(endx)) + endx + struct.pack('!HH', 1095, 3) + b'\x00\x00\x0a'
    return wire.update(attrs=wire.attr(0x40, 1, b'\x00') + wire.attr(0x40, 2, wire.as_path((65002,), True)) + wire.attr(0x40, 3, b'\x0a\x00\x00\x02') +
                       wire.attr(0x80, 29, ls), nlri=wire.prefix4(24, b'\x0a\x2b\x2b'))


# a second known-good message, of the kind whose decoders keep most state: link-state TLVs with sub-TLVs
PROBE_LS = _ls_update(struct.pack('!HH', 1252, 4) + bytes([32, 16, 16, 0]))
# ... and hostile relatives of it: the registered sub-TLV is cut short / nested
HOSTILE_LS = [_ls_update(struct.pack('!HH', 1252, 2) + bytes([32, 16])), _ls_update(struct.pack('!HH', 1252, 0)),
              _ls_update(struct.pack('!HH', 1252, 4) + bytes([32, 16, 16, 0]) + struct.pack('!HH', 1252, 1) + b'\x20')]
PROBES = [PROBE, PROBE_LS]
_REF = {}


def probe_reference(wcfg):
    key = canon(wcfg)
    if key not in _REF:
        w = World(wcfg)
        for ev in [{'k': 'boot'}, {'k': 'connOk', 'c': 1}, {'k': 'msg', 'c': 1, 'm': 'OPEN', 'h': 90}, {'k': 'msg', 'c': 1, 'm': 'KA'}]:
            w.apply(ev)
        w.observe()
        ref = []
        for pb in PROBES:
            w.apply({'k': 'data', 'c': 1, 'hex': pb.hex()})
            o = w.observe()
            ref.append([canon(p) for n, p in o['rep'] if n == 'update_received'])
        _REF[key] = ref
    return _REF[key]


def c10_run(tid, wcfg, cfgline, state, cls, data):
    ref = probe_reference(wcfg)      # (creates its own World: must happen before this run's World exists)
    w = World(wcfg)
    rec = R.Recorder(w, tid, cfgline)
    first_session(w, rec)
    if state in ('OPENCONFIRM', 'ESTABLISHED'):
        rec.step({'k': 'msg', 'c': 1, 'm': 'OPEN', 'h': 90}, 1)
    if state == 'ESTABLISHED':
        rec.step({'k': 'msg', 'c': 1, 'm': 'KA'}, 1)
    w.budget = BUDGET
    reps = 1
    if cls == 'FUZZ_UPD_REP':        # the same hostile UPDATE many times on one connection (state a decoder may leave behind adds up)
        cls, reps = 'FUZZ_UPD', 70
    alive = lambda x: x['st'] == 'ESTABLISHED' and W.connectors[0].state == 'connected' and not W.connectors[0].transport.disconnecting
    for _ in range(reps):
        o = rec.step({'k': 'data', 'c': 1, 'hex': data.hex(), 'cls': cls, 'm': cls}, 1, data=data, extra={'flen': len(data), 'fz': cls})
        if not alive(o):
            break
    if cls == 'FUZZ_UPD' and state == 'ESTABLISHED' and alive(o):
        # the same frame once more: it must be handled exactly like the first time
        first = ([n for n, p in o['rep']], [x['type'] for x in o['out']], o['st'])
        o = rec.step({'k': 'data', 'c': 1, 'hex': data.hex(), 'cls': cls, 'm': cls}, 1, data=data, extra={'flen': len(data), 'fz': cls})
        rec.lines[-1]['rptsame'] = first == ([n for n, p in o['rep']], [x['type'] for x in o['out']], o['st'])
    if cls != 'FUZZ_RAW' and alive(o):
        for pb, want in zip(PROBES, ref):
            o = rec.step({'k': 'data', 'c': 1, 'hex': pb.hex(), 'cls': 'PROBE', 'm': 'PROBE'}, 1, data=pb, extra={'flen': len(pb)})
            got = [canon(p) for n, p in o['rep'] if n == 'update_received']
            rec.lines[-1]['probeok'] = got == want
            if not alive(o):
                break
    w.budget = None
    return rec.lines


def c01n_run(tid, wcfg, cfgline, state, code, sub, extra_data):
    """a NOTIFICATION with the given error code / subcode in the given session state (C01: every NOTIFICATION ends the session)"""
    w = World(wcfg)
    rec = R.Recorder(w, tid, cfgline)
    first_session(w, rec)
    if state in ('OPENCONFIRM', 'ESTABLISHED'):
        rec.step({'k': 'msg', 'c': 1, 'm': 'OPEN', 'h': 90}, 1)
    if state == 'ESTABLISHED':
        rec.step({'k': 'msg', 'c': 1, 'm': 'KA'}, 1)
    data = wire.frame(3, bytes([code, sub]) + extra_data)
    cls = 'NOTIF_VER' if (code, sub) == (2, 1) else 'NOTIF'
    rec.step({'k': 'data', 'c': 1, 'hex': data.hex(), 'cls': cls, 'm': 'N%d.%d' % (code, sub)}, 1, data=data, extra={'flen': len(data)})
    return rec.lines


def c01u_run(tid, wcfg, cfgline, state, data, cls='UPD_BAD'):
    """a frame of type UPDATE and at least the minimum length, whatever its content, is an UPDATE event for the RFC table:
    FSM error before Established, no reaction of the state machine in Established (C01)"""
    w = World(wcfg)
    rec = R.Recorder(w, tid, cfgline)
    first_session(w, rec)
    if state in ('OPENCONFIRM', 'ESTABLISHED'):
        rec.step({'k': 'msg', 'c': 1, 'm': 'OPEN', 'h': 90}, 1)
    if state == 'ESTABLISHED':
        rec.step({'k': 'msg', 'c': 1, 'm': 'KA'}, 1)
    w.budget = BUDGET
    rec.step({'k': 'data', 'c': 1, 'hex': data.hex(), 'cls': cls, 'm': 'FUZZ'}, 1, data=data, extra={'flen': len(data)})
    w.budget = None
    return rec.lines


def c01u_jobs(tier, seed):
    wcfg = dict(tick=10.0, crt=20, idle=20, hold=90, las=65001, ras=65002)
    jobs = []
    inputs = fuzz_inputs(world.REPO, tier, seed)
    frames = [d for cls, d in inputs if cls == 'FUZZ_UPD' and len(d) >= 23]
    for i, d in enumerate(frames):
        for state in ('OPENSENT', 'OPENCONFIRM', 'ESTABLISHED'):
            if tier == 'quick' and (i + len(state)) % 3:
                continue
            jobs.append(('c01u', wcfg, state, d, 'UPD_BAD'))
    # the same for frames of type OPEN of at least the minimum length
    for i, d in enumerate([d for cls, d in inputs if cls == 'FUZZ_OPEN' and len(d) >= 29]):
        for state in ('OPENSENT', 'OPENCONFIRM', 'ESTABLISHED'):
            if tier == 'quick' and state != 'OPENSENT' and i % 3:
                continue
            jobs.append(('c01u', wcfg, state, d, 'OPEN_ANY'))
    return jobs


def c01n_jobs(tier, seed):
    wcfg = dict(tick=10.0, crt=20, idle=20, hold=90, las=65001, ras=65002)
    jobs = []
    for state in ('OPENSENT', 'OPENCONFIRM', 'ESTABLISHED'):
        for code in list(range(0, 10)) + [255]:
            for sub in (list(range(0, 13)) + [255]) if (tier == 'thorough' or code <= 7) else (0, 1):
                jobs.append(('c01n', wcfg, state, code, sub, b''))
                if sub in (0, 2):
                    jobs.append(('c01n', wcfg, state, code, sub, b'\x00\x04'))
    # the Data field is free-form octets (for Cease / 2 and 4 a length octet and a text, RFC 8203 / 9003): text that is
    # ASCII, UTF-8, ISO 8859-1, UTF-8 cut inside a character, binary, a wrong length octet, the longest possible field
    datas = [b'\x05hello', b'\x05caf\xc3\xa9', b'\x04caf\xe9', b'\x03ab\xe2', b'\x02\xff\xfe', b'\xff', b'\x80\x80\x80', b'\x10short', b'\x00',
             bytes(range(256)) * 15 + bytes(235)]
    for state in ('OPENSENT', 'OPENCONFIRM', 'ESTABLISHED'):
        for code, sub in ((6, 2), (6, 4), (6, 1), (6, 9), (2, 7), (3, 1), (1, 2), (4, 0), (5, 1)):
            for xd in datas if (tier == 'thorough' or code == 6) else datas[2:5]:
                jobs.append(('c01n', wcfg, state, code, sub, xd))
    return jobs


def c01q_run(tid, wcfg, cfgline, state, nitems, with_notif):
    """C01: the application has queued requests (BaseHandler.inter_mq) BEFORE the session is Established; the peer's
    KEEPALIVE in OpenSent / the first KEEPALIVE in OpenConfirm is answered as the table says, nothing else is written."""
    w = World(wcfg)
    rec = R.Recorder(w, tid, cfgline)
    c = first_session(w, rec)
    if c is None:
        return rec.lines
    if state == 'OPENCONFIRM':
        rec.step({'k': 'msg', 'c': c, 'm': 'OPEN', 'h': 90}, c)
    items = [{'type': 'update', 'msg': {'attr': {1: 0, 2: [(2, [65001])], 3: '10.0.0.1'}, 'nlri': ['10.77.%d.0/24' % i]}} for i in range(nitems)]
    if with_notif:
        items.append({'type': 'notification', 'msg': {'error': 6, 'sub_error': 2, 'data': b''}})
    rec.step({'k': 'enqueue', 'c': 0, 'items': items, 'cls': 'ENQUEUE', 'm': 'q%d' % len(items)}, 0)
    rec.step({'k': 'msg', 'c': c, 'm': 'KA'}, c)
    return rec.lines


def c01q_jobs(tier, seed):
    wcfg = dict(tick=10.0, crt=20, idle=20, hold=90, las=65001, ras=65002)
    return [('c01q', wcfg, state, n, wn) for state in ('OPENSENT', 'OPENCONFIRM') for n in (1, 3) for wn in (False, True)]


def c18q_run(tid, wcfg, cfgline, seed):
    """the application handler queues UPDATE / NOTIFICATION requests (BaseHandler.inter_mq); the agent sends them when a
    KEEPALIVE arrives.  Every frame written must show up in the sent counters (C18), on the tracked connection."""
    rnd = random.Random(seed)
    w = World(wcfg)
    rec = R.Recorder(w, tid, cfgline)
    c = first_session(w, rec)
    rec.step({'k': 'msg', 'c': c, 'm': 'OPEN', 'h': 90}, c)
    rec.step({'k': 'msg', 'c': c, 'm': 'KA'}, c)
    for r in range(rnd.randint(2, 5)):
        if rec.pre['st'] != 'ESTABLISHED' or rec.pre['trcs'] != 'open':
            break
        n = rnd.choice([1, 1, 2, 3, 5])
        items = [{'type': 'update', 'msg': {'attr': {1: 0, 2: [(2, [65001])], 3: '10.0.0.1'}, 'nlri': ['10.%d.%d.0/24' % (r, i)]}} for i in range(n)]
        if rnd.random() < 0.3:
            items.append({'type': 'notification', 'msg': {'error': 6, 'sub_error': 2, 'data': b''}})
        rec.step({'k': 'enqueue', 'c': 0, 'items': items, 'cls': 'ENQUEUE', 'm': 'q%d' % len(items)}, 0)
        if rnd.random() < 0.3:
            rec.step({'k': 'rest', 'c': 0, 'rule': 'send/update', 'method': 'POST', 'cred': 'good',
                      'body': {'attr': {'1': 0, '2': [[2, [65001]]], '3': '10.0.0.1'}, 'nlri': ['10.99.%d.0/24' % r]}, 'm': 'announce'}, 0)
        rec.step({'k': 'msg', 'c': c, 'm': 'KA'}, c)
    # a peer that catches up after a pause: thousands of small messages in ONE read (up to 64 KB); every one of them counts
    if rnd.random() < 0.3 and rec.pre['st'] == 'ESTABLISHED' and rec.pre['trcs'] == 'open':
        n = rnd.choice([2049, 2056, 3000, 3400])
        burst = b''.join(wire.update() if i % 100 == 7 else (wire.route_refresh() if i % 700 == 13 else wire.keepalive()) for i in range(n))
        rec.step({'k': 'data', 'c': c, 'hex': burst.hex(), 'cls': 'BURST', 'm': 'burst%d' % n}, c, data=burst)
    # the operator stops the peer at the end of half of the runs (the session may already have sent a queued NOTIFICATION)
    if rnd.random() < 0.5:
        rec.step({'k': 'stop', 'c': 0}, 0)
        rec.step({'k': 'tick', 'c': 0}, 0)
    return rec.lines


def c18q_jobs(tier, seed):
    wcfg = dict(tick=10.0, crt=20, idle=20, hold=90, las=65001, ras=65002)
    return [('c18q', wcfg, seed * 1000003 + i) for i in range(60 if tier == 'quick' else 2000)]


# ----------------------------------------------------------------------------- C16
RULE_CLASS = {'state': 'read', 'statistic': 'read', 'version/send': 'read', 'version/received': 'read', 'version/bogus': 'read',
              'manual-start': 'ctl', 'manual-stop': 'ctl', 'send/update': 'send', 'send/route-refresh': 'send', 'send/bin_update': 'send',
              'json_to_bin': 'gated', 'adj-rib-in': 'gated', 'adj-rib-out': 'gated'}
C16_STATES = ['PREBOOT', 'CONNECT', 'OPENSENT', 'OPENCONFIRM', 'ESTABLISHED', 'IDLE_CLOSING', 'IDLE_HOLD', 'STOPPED']
METHODS = ['GET', 'POST', 'PUT', 'DELETE', 'HEAD', 'OPTIONS', 'PATCH']
CREDS = ['none', 'baduser', 'badpass', 'good']
# further shapes of invalid credentials (issued for one body per rule, with the methods the rule has)
CREDS_MORE = ['baduser-empty', 'gooduser-empty', 'emptyuser', 'empty-both', 'swapped', 'case', 'garbage', 'nocolon']
BIN_UPDATE = wire.simple_update(prefixes=((24, b'\x0a\x07\x07'),), asns=(65001,), asn4=True)


def url_rules():
    """the rules under /v1/peer/ of the REAL URL map, with the variable parts filled in"""
    out = []
    for r in world.app.url_map.iter_rules():
        if not r.rule.startswith('/v1/peer/<peer_ip>/'):
            continue
        tail = r.rule[len('/v1/peer/<peer_ip>/'):]
        if '<action>' in tail:
            out += [tail.replace('<action>', a) for a in ('send', 'received', 'bogus')]
        else:
            out.append(tail)
    return sorted(set(out))


def bodies_for(rule):
    """[(name, json body or None, rq description)]"""
    u = {'cls': RULE_CLASS.get(rule, 'unknown'), 'valid': False, 'etype': '', 'wdn': 0, 'nln': 0, 'ats': [], 'ibgp': False, 'lp': -1, 'aspl': -1, 'rr': [-1, -1, -1]}
    if rule == 'send/update':
        base = {'1': 0, '2': [[2, [65001]]], '3': '10.0.0.1'}
        return [('announce', {'attr': dict(base), 'nlri': ['10.5.0.0/16', '10.6.6.0/24']}, dict(u, valid=True, etype='UPDATE', nln=2, ats=[1, 2, 3])),
                ('announce-lp', {'attr': dict(base, **{'5': 200, '4': 7}), 'nlri': ['10.5.0.0/16']}, dict(u, valid=True, etype='UPDATE', nln=1, ats=[1, 2, 3, 5, 4], lp=200)),
                ('announce-lp0', {'attr': dict(base, **{'5': 0}), 'nlri': ['10.5.0.0/16']}, dict(u, valid=True, etype='UPDATE', nln=1, ats=[1, 2, 3, 5], lp=0)),
                ('announce-lp1', {'attr': dict(base, **{'5': 1}), 'nlri': ['10.5.0.0/16']}, dict(u, valid=True, etype='UPDATE', nln=1, ats=[1, 2, 3, 5], lp=1)),
                ('announce-lpmax', {'attr': dict(base, **{'5': 2147483647}), 'nlri': ['10.5.0.0/16']}, dict(u, valid=True, etype='UPDATE', nln=1, ats=[1, 2, 3, 5], lp=2147483647)),
                ('withdraw', {'withdraw': ['10.5.0.0/16']}, dict(u, valid=True, etype='UPDATE', wdn=1)),
                ('both', {'attr': dict(base), 'nlri': ['10.5.0.0/16'], 'withdraw': ['10.9.0.0/16', '10.8.0.0/16']}, dict(u, valid=True, etype='UPDATE', wdn=2, nln=1, ats=[1, 2, 3])),
                # one UPDATE for two address families: IPv4 prefixes plus MP_REACH_NLRI (IPv6) and MP_UNREACH_NLRI (IPv6)
                ('mixed-mp', {'attr': dict(base, **{'14': {'afi_safi': [2, 1], 'nexthop': '2001:db8::1', 'nlri': ['2001:db8:1::/48']}}), 'nlri': ['10.5.0.0/16']},
                 dict(u, valid=True, etype='UPDATE', nln=1, ats=[1, 2, 3, 14])),
                ('mixed-mp-both', {'attr': dict(base, **{'14': {'afi_safi': [2, 1], 'nexthop': '2001:db8::1', 'nlri': ['2001:db8:1::/48']},
                                                         '15': {'afi_safi': [2, 1], 'withdraw': ['2001:db8:2::/48']}}), 'nlri': ['10.5.0.0/16'], 'withdraw': ['10.9.0.0/16']},
                 dict(u, valid=True, etype='UPDATE', nln=1, wdn=1, ats=[1, 2, 3, 14, 15])),
                # the same prefix announced and withdrawn in one request: both fields go out as asked
                ('both-same-prefix', {'attr': dict(base), 'nlri': ['10.9.0.0/16', '10.7.0.0/16'], 'withdraw': ['10.9.0.0/16', '10.8.0.0/16']},
                 dict(u, valid=True, etype='UPDATE', wdn=2, nln=2, ats=[1, 2, 3])),
                ('both-all-same', {'attr': dict(base), 'nlri': ['10.7.0.0/16'], 'withdraw': ['10.7.0.0/16']}, dict(u, valid=True, etype='UPDATE', wdn=1, nln=1, ats=[1, 2, 3])),
                # requests that pass the REST layer's checks but cannot be encoded: refused, and nothing else changes
                ('bad-asn', {'attr': dict(base, **{'2': [[2, [4294967296]]]}), 'nlri': ['10.5.0.0/16']}, dict(u, etype='UPDATE')),
                ('bad-nexthop', {'attr': dict(base, **{'3': 'not-an-address'}), 'nlri': ['10.5.0.0/16']}, dict(u, etype='UPDATE')),
                ('bad-med', {'attr': dict(base, **{'4': 4294967296}), 'nlri': ['10.5.0.0/16']}, dict(u, etype='UPDATE')),
                ('bad-community', {'attr': dict(base, **{'8': ['1:2:3:x']}), 'nlri': ['10.5.0.0/16']}, dict(u, etype='UPDATE')),
                ('empty', {}, dict(u, etype='UPDATE'))]
    if rule == 'send/route-refresh':
        return [('ipv4', {'afi': 1, 'safi': 1}, dict(u, valid=True, etype='RR', rr=[1, 0, 1])), ('unsupported-family', {'afi': 2, 'safi': 1}, dict(u, etype='RR')),
                ('no-afi', {'safi': 1}, dict(u, etype='RR')),
                ('ipv4-res255', {'afi': 1, 'safi': 1, 'res': 255}, dict(u, valid=True, etype='RR', rr=[1, 255, 1])),
                ('ipv4-res1', {'afi': 1, 'safi': 1, 'res': 1}, dict(u, valid=True, etype='RR', rr=[1, 1, 1])),
                ('ipv4-res3', {'afi': 1, 'safi': 1, 'res': 3}, dict(u, valid=True, etype='RR', rr=[1, 3, 1])),
                ('ipv4-res128', {'afi': 1, 'safi': 1, 'res': 128}, dict(u, valid=True, etype='RR', rr=[1, 128, 1])),
                # a reserved field that does not fit one octet cannot be encoded: the request must fail without any effect
                ('ipv4-res256', {'afi': 1, 'safi': 1, 'res': 256}, dict(u, etype='RR')), ('ipv4-res-neg', {'afi': 1, 'safi': 1, 'res': -1}, dict(u, etype='RR')),
                ('ipv4-res-text', {'afi': 1, 'safi': 1, 'res': 'x'}, dict(u, etype='RR')), ('afi-huge', {'afi': 65536, 'safi': 1}, dict(u, etype='RR')),
                ('safi-huge', {'afi': 1, 'safi': 256}, dict(u, etype='RR'))]
    if rule == 'send/bin_update':
        return [('update-hex', {'binary_data': BIN_UPDATE.hex()}, dict(u, valid=True, etype='UPDATE', nln=1, ats=[1, 2, 3])),
                # octets that are not one BGP message (leading zero octets, a short frame, all zeros): if the agent says it
                # sent them, exactly these octets are on the wire
                ('raw-00-update', {'binary_data': '00' + BIN_UPDATE.hex()}, dict(u, etype='RAW')),
                ('raw-0000-update', {'binary_data': '0000' + BIN_UPDATE.hex()}, dict(u, etype='RAW')),
                ('raw-0a-update', {'binary_data': '0a' + BIN_UPDATE.hex()}, dict(u, etype='RAW')),
                ('raw-zeros', {'binary_data': '00000000'}, dict(u, etype='RAW')), ('raw-short', {'binary_data': '0000001304'}, dict(u, etype='RAW')),
                ('raw-upper', {'binary_data': BIN_UPDATE.hex().upper()}, dict(u, valid=True, etype='UPDATE', nln=1, ats=[1, 2, 3])),
                ('odd-length', {'binary_data': 'abc'}, dict(u, etype='UPDATE')), ('nothing', {}, dict(u, etype='UPDATE'))]
    if rule == 'json_to_bin':
        return [('announce', {'attr': {'1': 0, '2': [], '3': '10.0.0.1'}, 'nlri': ['10.5.0.0/16']}, dict(u, valid=True))]
    if rule in ('adj-rib-in', 'adj-rib-out'):
        return [('lookup', {'data': ['10.5.0.0/16']}, dict(u, valid=True))]
    return [('none', None, u)]


def c16_reach(w, rec, state):
    """bring the agent into `state`; -> connector index of the session (0 if none)"""
    if state == 'PREBOOT':
        return 0
    rec.step({'k': 'boot', 'c': 0}, 0)
    if state == 'CONNECT':
        return 0
    rec.step({'k': 'connOk', 'c': 1}, 1)
    if state == 'OPENSENT':
        return 1
    if state == 'IDLE_CLOSING' or state == 'IDLE_HOLD':
        rec.step({'k': 'msg', 'c': 1, 'm': 'BADTYPE'}, 1)
        if state == 'IDLE_HOLD':
            rec.step({'k': 'connLost', 'c': 1}, 1)
        return 1
    rec.step({'k': 'msg', 'c': 1, 'm': 'OPEN', 'h': 90}, 1)
    if state == 'OPENCONFIRM':
        return 1
    rec.step({'k': 'msg', 'c': 1, 'm': 'KA'}, 1)
    if state == 'STOPPED':
        rec.step({'k': 'stop', 'c': 0}, 0)
    return 1


def c16_run(tid, wcfg, cfgline, state, rule, method, cred, bname, body, rq):
    w = World(wcfg)
    rec = R.Recorder(w, tid, cfgline)
    c16_reach(w, rec, state)
    pre = rec.pre['o']['stat']
    rq = dict(rq, ibgp=wcfg['las'] == wcfg['ras'])
    # the AS numbers of a requested AS_PATH go out in the width negotiated for THIS session: 4 octets exactly when both
    # OPENs carried capability 65
    rq.setdefault('aspl', -1)
    if rule == 'send/update' and isinstance(body, dict) and isinstance((body.get('attr') or {}).get('2'), list):
        four = wcfg.get('four_bytes_as', True) and 'as4' in (wcfg.get('peer_caps') or ['mp', 'rr', 'as4'])
        rq['aspl'] = sum(2 + len(seg[1]) * (4 if four else 2) for seg in body['attr']['2'])
    o = rec.step({'k': 'rest', 'c': 0, 'rule': rule, 'method': method, 'cred': cred, 'body': body if method in ('POST', 'PUT', 'OPTIONS', 'PATCH', 'DELETE') else None, 'm': bname}, 0,
                 extra={'rq': rq})
    rec.lines[-1]['statsame'] = (pre == o['stat'])
    if rule == 'send/bin_update' and isinstance(body, dict) and isinstance(body.get('binary_data'), str):
        try:
            want = bytes.fromhex(body['binary_data'])
        except ValueError:
            want = None
        rec.lines[-1]['binsame'] = (want is not None and b''.join(x['raw'] for x in o['out']) == want)
    if state == 'ESTABLISHED' and cred == 'good' and method == 'POST' and RULE_CLASS.get(rule) in ('send', 'gated'):
        # the same request once more: nothing a request leaves behind may change how the next one is served
        pre2 = rec.pre['o']['stat']
        o2 = rec.step({'k': 'rest', 'c': 0, 'rule': rule, 'method': method, 'cred': cred, 'body': body, 'm': bname}, 0, extra={'rq': rq})
        rec.lines[-1]['statsame'] = (pre2 == o2['stat'])
    # what the request left behind must not break the next ordinary events (with RIB maintenance on, a ROUTE-REFRESH of
    # the peer for IPv4 unicast in both type codes is one of them)
    if rec.pre['st'] == 'ESTABLISHED' and rec.pre['trcs'] == 'open':
        rec.step({'k': 'msg', 'c': rec.pre['tr'], 'm': 'KA'}, rec.pre['tr'])
    if wcfg.get('rib') and rec.pre['st'] == 'ESTABLISHED' and rec.pre['trcs'] == 'open':
        rec.step({'k': 'msg', 'c': rec.pre['tr'], 'm': 'RR'}, rec.pre['tr'])
        rec.step({'k': 'msg', 'c': rec.pre['tr'], 'm': 'RR128'}, rec.pre['tr'])
    return rec.lines


def max_size_bodies():
    """send/update and send/bin_update requests whose UPDATE is exactly 4096 / 4095 / 4000 octets (eBGP, 4-octet AS)"""
    out = []
    u = {'cls': 'send', 'valid': True, 'etype': 'UPDATE', 'wdn': 0, 'nln': 0, 'ats': [1, 2, 3], 'ibgp': False, 'lp': -1, 'aspl': -1, 'rr': [-1, -1, -1]}
    base = {'1': 0, '2': [[2, [65001]]], '3': '10.0.0.1'}
    for total, tail in ((4096, ['10.250.0.0/16']), (4095, ['10.0.0.0/8']), (4093, []), (4097, ['10.250.1.0/24']), (5043, [])):
        n32 = (total - 43 - sum({24: 4, 16: 3, 8: 2}[int(t.split('/')[1])] for t in tail)) // 5
        nl = ['10.%d.%d.%d/32' % (1 + i // 65536, (i // 256) % 256, i % 256) for i in range(n32)] + tail
        # (a request for more than 4096 octets is not a valid request: only the statistics and "a failed send writes nothing" apply)
        out.append(('send/update', 'size%d' % total, {'attr': dict(base), 'nlri': nl}, dict(u, nln=len(nl), valid=total <= 4096)))
        pf = tuple((32, bytes([10, 1 + i // 65536, (i // 256) % 256, i % 256])) for i in range(n32)) + tuple(
            (int(t.split('/')[1]), bytes(int(x) for x in t.split('/')[0].split('.'))[:int(t.split('/')[1]) // 8]) for t in tail)
        msg = wire.simple_update(prefixes=pf, asns=(65001,), asn4=True)
        out.append(('send/bin_update', 'binsize%d' % len(msg), {'binary_data': msg.hex()}, dict(u, nln=len(nl), valid=total <= 4096)))
    # more than a thousand short prefixes in one request (they fit: 3 octets each)
    many = ['%d.%d.0.0/16' % (11 + i // 256, i % 256) for i in range(1300)]
    out.append(('send/update', 'announce1100', {'attr': dict(base), 'nlri': many[:1100]}, dict(u, nln=1100, valid=True)))
    out.append(('send/update', 'announce1025', {'attr': dict(base), 'nlri': many[:1025]}, dict(u, nln=1025, valid=True)))
    out.append(('send/update', 'withdraw1300', {'withdraw': many}, dict(u, wdn=1300, ats=[], valid=True)))
    out.append(('send/update', 'both40+1025', {'attr': dict(base), 'nlri': many[:40], 'withdraw': many[100:1125]}, dict(u, nln=40, wdn=1025, valid=True)))
    return out


def c16_jobs(tier, seed):
    rnd = random.Random(seed)
    jobs = []
    rules = url_rules()
    for rule, bname, body, rq in max_size_bodies():
        for state in ('ESTABLISHED', 'OPENCONFIRM'):
            jobs.append(('c16', dict(las=65001, ras=65002, hold=90), state, rule, 'POST', 'good', bname, body, rq))
    # the same sends with RIB maintenance switched on (--bgp-rib): bookkeeping must not change what is sent
    for rule in ('send/update', 'send/bin_update'):
        for (bname, body, rq) in bodies_for(rule):
            jobs.append(('c16', dict(las=65001, ras=65002, hold=90, rib=True, afi_safi=['ipv4', 'ipv6']), 'ESTABLISHED', rule, 'POST', 'good', bname, body, rq))
    # sessions on which only one side offered the 4-octet-AS capability (AS numbers then travel in 2 octets)
    for extra in (dict(four_bytes_as=False), dict(peer_caps=['mp', 'rr']), dict(four_bytes_as=False, peer_caps=['mp', 'rr'])):
        for rule in ('send/update', 'send/bin_update', 'json_to_bin'):
            for (bname, body, rq) in bodies_for(rule):
                jobs.append(('c16', dict(las=65001, ras=65002, hold=90, **extra), 'ESTABLISHED', rule, 'POST', 'good', bname, body, rq))
    # peers that advertise other route-refresh capabilities (Cisco 128, enhanced 70) or none: the reserved octet goes out as asked
    for pc in (['mp', 'rr', 'crr', 'err', 'as4'], ['mp', 'crr', 'err', 'as4'], ['mp', 'rr', 'err', 'as4', 'gr']):
        for (bname, body, rq) in bodies_for('send/route-refresh'):
            jobs.append(('c16', dict(las=65001, ras=65002, hold=90, peer_caps=pc), 'ESTABLISHED', 'send/route-refresh', 'POST', 'good', bname, body, rq))
    for wcfg in (dict(las=65001, ras=65002, hold=90, afi_safi=['ipv4', 'ipv6']), dict(las=65001, ras=65001, hold=90)):
        for state in C16_STATES:
            for rule in rules:
                for (bname, body, rq) in bodies_for(rule):
                    for method in METHODS:
                        for cred in CREDS + (CREDS_MORE if (method in ('GET', 'POST') and state in ('ESTABLISHED', 'CONNECT', 'STOPPED')
                                                            and wcfg['las'] != wcfg['ras']) else []):
                            if tier == 'quick' and wcfg['las'] == wcfg['ras'] and not (rule.startswith('send/') and cred == 'good' and state == 'ESTABLISHED'):
                                continue
                            if cred != 'good' and bname not in ('announce', 'ipv4', 'update-hex', 'none', 'lookup'):
                                continue
                            jobs.append(('c16', wcfg, state, rule, method, cred, bname, body, rq))
    return jobs


def run_jobs(args):
    k, jobs, outdir, cfgline_fn = args
    path = os.path.join(outdir, 'scen_%04d.ndjson' % k)
    n = 0
    with open(path, 'w') as fh:
        for tid, job in jobs:
            if job[0] == 'c05':
                _, cc, hist, final = job
                wcfg = dict(tick=10.0, crt=20, idle=20, **cc)
                lines = c05_run(tid, wcfg, cfgline_fn(wcfg), hist, final)
            elif job[0] == 'c18q':
                _, wcfg, sd = job
                lines = c18q_run(tid, wcfg, cfgline_fn(wcfg), sd)
            elif job[0] == 'c01u':
                _, wcfg, state, data, fcls = job
                lines = c01u_run(tid, wcfg, cfgline_fn(wcfg), state, data, fcls)
            elif job[0] == 'c01n':
                _, wcfg, state, code, sub, xd = job
                lines = c01n_run(tid, wcfg, cfgline_fn(wcfg), state, code, sub, xd)
            elif job[0] == 'c12md5':
                _, wcfg, sd = job
                lines = c12md5_run(tid, wcfg, cfgline_fn(wcfg), sd)
            elif job[0] == 'c01q':
                _, wcfg, state, nitems, wn = job
                lines = c01q_run(tid, wcfg, cfgline_fn(wcfg), state, nitems, wn)
            elif job[0] == 'c13u':
                _, wcfg, sd = job
                lines = c13u_run(tid, wcfg, cfgline_fn(wcfg), sd)
            elif job[0] == 'c02r':
                _, wcfg, sd = job
                lines = c02r_run(tid, wcfg, cfgline_fn(wcfg), sd)
            elif job[0] == 'c03c':
                _, wcfg, ph, wait = job
                lines = c03c_run(tid, wcfg, cfgline_fn(wcfg), ph, wait)
            elif job[0] == 'c03s':
                _, wcfg, wait = job
                lines = c03s_run(tid, wcfg, cfgline_fn(wcfg), wait)
            elif job[0] == 'c03j':
                _, wcfg, sd = job
                lines = c03j_run(tid, wcfg, cfgline_fn(wcfg), sd)
            elif job[0] == 'c16':
                _, cc, state, rule, method, cred, bname, body, rq = job
                wcfg = dict(tick=10.0, crt=20, idle=20, **cc)
                lines = c16_run(tid, wcfg, cfgline_fn(wcfg), state, rule, method, cred, bname, body, rq)
            else:
                _, wcfg, state, cls, data = job
                lines = c10_run(tid, wcfg, cfgline_fn(wcfg), state, cls, data)
            for ln in lines:
                fh.write(R.dumps(ln) + '\n')
            n += 1
    return path, n
