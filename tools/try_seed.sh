#!/bin/bash
# try_seed.sh <patch.diff> <check id>... : apply a seeded change to /repo, run the quick checks, undo it straight afterwards
set -u
p=$1; shift
git -C /repo diff --quiet || { echo "/repo not clean"; exit 2; }
git -C /repo apply $p || exit 2
trap 'git -C /repo checkout -- .' EXIT
for c in "$@"; do
  echo "== $c"; (cd /verif && ./check $c --tier ${TIER:-quick} 2>&1 | grep -E "^VIOLATION|^KNOWN|^  clause|MACHINERY" | cut -c1-260 | head -8); echo "rc=${PIPESTATUS[0]}"
done
