#!/bin/bash
# seed_matrix.sh [seed ids...] : for every kept seeded change: confirm it on the current /repo HEAD (tests pass with it,
# its demonstration exits 0 on the unchanged tree and 1 on the changed tree) and run the quick check(s) that are said to
# detect it against a scratch worktree carrying the change.  Writes seeded/MATRIX.txt.  /repo itself is never touched.
# PAR=<n> seeds are processed at a time (default 3).
cd /verif
out=seeded/MATRIX.txt
one() {
  declare -A OVERRIDE=([C01-c]="C05 C02" [C06-d]="C16" [C10-d]="C02" [C09-b]="C09 C15" [C05-f]="C09" [C01-f]="C03" [C10-f]="C12" [C16-f]="C17" [C10-h]="C02 C05" [C06-h]="C16" [C01-i]="C04" [C01-j]="C04" [C02-j]="C05" [C10-j]="C20" [C18-j]="C18 C01")
  id=$1
  d=/verif/seeded/$id
  prop=${id%%-*}
  checks=${OVERRIDE[$id]:-$prop}
  conf=$(tools/confirm_seed.sh $d 2>&1 | grep 'demo_unchanged_rc\|passed\|failed' | tail -2 | tr '\n' ' ')
  wt=/tmp/wt/mx_$id
  git -C /repo worktree add -q --detach $wt HEAD && git -C $wt apply $d/patch.diff
  res=""
  for c in $checks; do
    ev=$(mktemp -d /tmp/ev_XXXX)
    n=$(VERIF_REPO=$wt VERIF_EVIDENCE_DIR=$ev timeout 3600 ./check $c --tier quick 2>&1 | grep -c '^VIOLATION')
    rm -rf $ev
    res="$res $c:$n"
  done
  git -C /repo worktree remove --force $wt
  echo "$id | $conf| violations reported by$res"
}
export -f one
ids="$@"; [ -z "$ids" ] && ids=$(ls seeded | grep '^C[0-9][0-9]-' ) && : > $out
printf '%s\n' $ids | xargs -P ${PAR:-3} -I{} bash -c 'one {}' | tee -a $out.part
sort $out.part >> $out; rm -f $out.part
git -C /repo worktree prune
