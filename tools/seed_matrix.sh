#!/bin/bash
# seed_matrix.sh [seed ids...] : for every kept seeded change: confirm it on the current /repo HEAD (tests pass with it,
# its demonstration exits 0 on the unchanged tree and 1 on the changed tree) and run the quick check(s) that are said to
# detect it against a scratch worktree carrying the change.  Writes seeded/MATRIX.txt.  /repo itself is never touched.
cd /verif
declare -A OVERRIDE=([C01-c]="C05 C02" [C06-d]="C16" [C10-d]="C02" [C09-b]="C09 C15" [C05-f]="C09")
out=seeded/MATRIX.txt
ids="$@"; [ -z "$ids" ] && ids=$(ls seeded | grep '^C[0-9][0-9]-' ) && : > $out
for id in $ids; do
  d=/verif/seeded/$id
  prop=${id%%-*}
  checks=${OVERRIDE[$id]:-$prop}
  conf=$(tools/confirm_seed.sh $d 2>&1 | grep 'demo_unchanged_rc\|passed\|failed' | tail -2 | tr '\n' ' ')
  wt=/tmp/wt/mx_$id
  git -C /repo worktree add -q --detach $wt HEAD && git -C $wt apply $d/patch.diff
  res=""
  for c in $checks; do
    n=$(VERIF_REPO=$wt VERIF_EVIDENCE_DIR=$(mktemp -d /tmp/ev_XXXX) timeout 1800 ./check $c --tier quick 2>&1 | grep -c '^VIOLATION')
    res="$res $c:$n"
  done
  git -C /repo worktree remove --force $wt
  echo "$id | $conf| violations reported by$res" | tee -a $out
done
git -C /repo worktree prune
rm -rf /tmp/ev_* 2>/dev/null
