#!/bin/bash
# run_all.sh [tier] : every check once, sequentially; prints rc and seconds per property
cd /verif
tier=${1:-quick}
for p in $(jq -r '.checks[].property_id' MANIFEST.json); do
  s=$(date +%s); ./check $p --tier $tier > /tmp/runall_$p.log 2>&1; rc=$?
  echo "$p rc=$rc secs=$(( $(date +%s) - s )) $(grep -c '^VIOLATION' /tmp/runall_$p.log) violations, $(grep -c '^KNOWN-FINDING' /tmp/runall_$p.log) known"
done
