#!/bin/bash
# try_wt.sh <tree with a seeded change applied> <check id>... : run the quick checks against that tree (VERIF_REPO),
# leaving /repo untouched (used while other checks are running on /repo); evidence goes to a scratch directory
set -u
t=$1; shift
for c in "$@"; do
  echo "== $c"; (cd /verif && VERIF_REPO=$t VERIF_EVIDENCE_DIR=$(mktemp -d /tmp/ev_XXXX) ./check $c --tier ${TIER:-quick} 2>&1 | grep -E "^VIOLATION|^KNOWN|^  clause|MACHINERY" | cut -c1-260 | head -8)
done
