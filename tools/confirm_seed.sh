#!/bin/bash
# confirm_seed.sh <seed dir with patch.diff demo.py meta.json>
# Confirms in a scratch worktree: patch applies, pinned test suite passes with it, demo passes without / fails with.
set -u
d=$1
wt=/tmp/wt/confirm_$$
git -C /repo worktree add -q --detach $wt HEAD || exit 2
trap 'git -C /repo worktree remove --force $wt' EXIT
/venv/bin/python -B $d/demo.py $wt > /tmp/confirm_clean.$$ 2>&1; rc_clean=$?
git -C $wt apply $d/patch.diff || { echo "patch does not apply"; exit 2; }
(cd $wt && /venv/bin/python -B -m pytest -q -p no:cacheprovider --timeout=900 yabgp 2>&1 | tail -1) > /tmp/confirm_tests.$$
/venv/bin/python -B $d/demo.py $wt > /tmp/confirm_mut.$$ 2>&1; rc_mut=$?
echo "tests_with_patch: $(cat /tmp/confirm_tests.$$)"
echo "demo_unchanged_rc=$rc_clean demo_patched_rc=$rc_mut"
tail -3 /tmp/confirm_mut.$$
rm -f /tmp/confirm_*.$$
