#!/bin/bash
# Offline setup: parse every specification module and smoke-test the harness imports. Nothing is installed.
set -e
cd "$(dirname "$0")"
cd spec
for f in *.tla; do
  tla-sany "$f" > /tmp/sany.$$ 2>&1 || { cat /tmp/sany.$$; rm -f /tmp/sany.$$; exit 1; }
done
rm -f /tmp/sany.$$
cd ..
PYTHONPATH=harness/shim:/repo /venv/bin/python -c "import sys; sys.path.insert(0,'harness'); import world; w = world.World(); print('harness ok', w.observe()['st'])"
PYTHONHASHSEED=0 /venv/bin/python harness/pregen.py
