----------------------------- MODULE WireUpdate -----------------------------
(***************************************************************************)
(* Layer W: the UPDATE message with IPv4 unicast NLRI and the standard     *)
(* path attributes (RFC 4271, 1997, 4360, 4456, 6793, 8092), as a          *)
(* reference encoder (EncUpdate, with the legal encoding variants of C09), *)
(* a structural walker that shares nothing with yabgp (WfUpdate, C08), the *)
(* single-field corruptions of C09 and the bounded value pools from which  *)
(* TLC enumerates test vectors for the real codec (WireGen.tla).           *)
(*                                                                         *)
(* Abstract values                                                         *)
(*   prefix  [l, a]                    a = 4 address octets, host bits 0   *)
(*   32-bit  <<hi16, lo16>>                                                *)
(*   attr    [t |-> 1, v |-> 0..2]                              ORIGIN      *)
(*           [t |-> 2, v |-> <<[st, asns |-> <<hl..>>]..>>]     AS_PATH     *)
(*           [t |-> 3, v |-> ip4] [t |-> 4|5, v |-> hl] [t |-> 6, v |-> 0]  *)
(*           [t |-> 7, v |-> [as |-> hl, ip |-> ip4]]           AGGREGATOR  *)
(*           [t |-> 8, v |-> <<hl..>>] [t |-> 9, v |-> ip4] [t |-> 10, v |-> <<ip4..>>] *)
(*           [t |-> 16, v |-> <<8 octets..>>] [t |-> 32, v |-> <<<<hl,hl,hl>>..>>]      *)
(*           [t |-> 17|18, ...] AS4_PATH / AS4_AGGREGATOR (always 4-octet)  *)
(*           [t |-> 200.., v |-> octets]                        unknown     *)
(*   update  [wd |-> <<prefix..>>, attrs |-> <<attr..>>, nlri |-> <<prefix..>>] *)
(***************************************************************************)
EXTENDS WireCore

EncAs(hl, asn4) == IF asn4 THEN U32hl(hl) ELSE U16(hl[2])
EncSeg(s, asn4) == <<s.st, Len(s.asns)>> \o Flatten([i \in 1..Len(s.asns) |-> EncAs(s.asns[i], asn4)])
EncAttrVal(a, asn4) ==
   CASE a[1] = 1 -> <<a[2]>>
     [] a[1] = 2 -> Flatten([i \in 1..Len(a[2]) |-> EncSeg(a[2][i], asn4)])
     [] a[1] = 17 -> Flatten([i \in 1..Len(a[2]) |-> EncSeg(a[2][i], TRUE)])
     [] a[1] \in {3, 9} -> a[2]
     [] a[1] \in {4, 5} -> U32hl(a[2])
     [] a[1] = 6 -> <<>>
     [] a[1] = 7 -> EncAs(a[2].as, asn4) \o a[2].ip
     [] a[1] = 18 -> EncAs(a[2].as, TRUE) \o a[2].ip
     [] a[1] = 8 -> Flatten([i \in 1..Len(a[2]) |-> U32hl(a[2][i])])
     [] a[1] = 10 -> Flatten(a[2])
     [] a[1] = 16 -> Flatten(a[2])
     [] a[1] = 32 -> Flatten([i \in 1..Len(a[2]) |-> U32hl(a[2][i][1]) \o U32hl(a[2][i][2]) \o U32hl(a[2][i][3])])
     [] OTHER -> a[2]
\* an unknown attribute is sent optional transitive
AttrType(a) == a[1]
EncAttr(a, asn4, forceExt) ==
   IF Category(a[1]) = -1
   THEN LET ext == Len(a[2]) > 255 \/ forceExt IN <<192 + (IF ext THEN 16 ELSE 0), a[1]>> \o (IF ext THEN U16(Len(a[2])) ELSE <<Len(a[2])>>) \o a[2]
   ELSE AttrTLV(a[1], EncAttrVal(a, asn4), forceExt)
EncAttrs(as, asn4, forceExt) == Flatten([i \in 1..Len(as) |-> EncAttr(as[i], asn4, forceExt)])
EncPfx(ps, dirty, pathids) ==
   Flatten([i \in 1..Len(ps) |-> (IF pathids THEN <<0, 0, 0, i>> ELSE <<>>) \o (IF dirty THEN EncPrefixDirty(ps[i]) ELSE EncPrefix(ps[i]))])
\* prefixes with explicit add-path identifiers (RFC 7911): ids[i] = 4 octets
EncPfxIds(ps, ids) == Flatten([i \in 1..Len(ps) |-> ids[i] \o EncPrefix(ps[i])])
EncUpdateAddPath(u, asn4, wids, nids) ==
   LET w == EncPfxIds(u.wd, wids)
       a == EncAttrs(u.attrs, asn4, FALSE)
   IN Message(2, U16(Len(w)) \o w \o U16(Len(a)) \o a \o EncPfxIds(u.nlri, nids))
\* var: [ext: extended length on every attribute, dirty: non-zero trailing prefix bits, pathids: add-path identifiers]
Canon == [ext |-> FALSE, dirty |-> FALSE, pathids |-> FALSE]
EncUpdateBody(u, asn4, var) ==
   LET w == EncPfx(u.wd, var.dirty, var.pathids)
       a == EncAttrs(u.attrs, asn4, var.ext)
   IN U16(Len(w)) \o w \o U16(Len(a)) \o a \o EncPfx(u.nlri, var.dirty, var.pathids)
EncUpdate(u, asn4, var) == Message(2, EncUpdateBody(u, asn4, var))

(***************************** structural walker (C08) *********************)
RECURSIVE WfSegs(_, _)
WfSegs(b, w) ==      \* AS_PATH segments of w-octet AS numbers sum exactly
   IF b = <<>> THEN TRUE
   ELSE /\ Len(b) >= 2 /\ b[1] \in 1..4 /\ Len(b) >= 2 + w * b[2] /\ WfSegs(Drop(b, 2 + w * b[2]), w)
\* value-level structure of the attributes this module knows; anything else only has to fit its TLV
WfAttrVal(t, v, asn4) ==
   CASE t = 1 -> Len(v) = 1
     [] t = 2 -> WfSegs(v, IF asn4 THEN 4 ELSE 2)
     [] t = 17 -> WfSegs(v, 4)
     [] t \in {3, 4, 5, 9} -> Len(v) = 4
     [] t = 6 -> Len(v) = 0
     [] t = 7 -> Len(v) = (IF asn4 THEN 8 ELSE 6)
     [] t = 18 -> Len(v) = 8
     [] t = 8 -> Len(v) % 4 = 0
     [] t = 10 -> Len(v) % 4 = 0
     [] t = 16 -> Len(v) % 8 = 0
     [] t = 32 -> Len(v) % 12 = 0 /\ Len(v) > 0
     [] OTHER -> TRUE
\* extended-length bit <=> 2-octet length is implied by the way SplitAttrs reads the block; in addition the encoder
\* under test must use the 2-octet form only when it has to (RFC 4271 4.3 allows it always; yabgp is required by
\* the property to set the bit iff it uses a 2-octet length, which SplitAttrs enforces by construction)
WfAttrBlock(b, asn4, valueCheck(_, _, _)) ==
   LET as == SplitAttrs(b) IN
   /\ \A i \in 1..Len(as) : as[i].f # -1
   /\ \A i \in 1..Len(as) : FlagsOk(as[i].t, as[i].f) /\ valueCheck(as[i].t, as[i].v, asn4)
   /\ \A i, j \in 1..Len(as) : i # j => as[i].t # as[j].t
\* whole message: header length = size, the three parts sum exactly to the body, prefixes occupy ceil(len/8) octets
WfUpdateWith(m, asn4, valueCheck(_, _, _)) ==
   /\ Len(m) >= 23 /\ Len(m) <= 4096 /\ Take(m, 16) = Marker /\ N16(m, 17) = Len(m) /\ m[19] = 2
   /\ LET b == Drop(m, 19)
          wl == N16(b, 1)
      IN /\ Len(b) >= 4 + wl
         /\ LET al == N16(b, 3 + wl) IN
            /\ Len(b) >= 4 + wl + al
            /\ WfPrefixList(SubSeq(b, 3, 2 + wl), 32)
            /\ WfAttrBlock(SubSeq(b, 5 + wl, 4 + wl + al), asn4, valueCheck)
            /\ WfPrefixList(Drop(b, 4 + wl + al), 32)
WfUpdate(m, asn4) == WfUpdateWith(m, asn4, WfAttrVal)
\* the same with add-path: every prefix is preceded by a 4-octet path identifier
RECURSIVE WfPrefixListAP(_)
WfPrefixListAP(b) ==
   IF b = <<>> THEN TRUE
   ELSE /\ Len(b) >= 5 /\ b[5] <= 32 /\ Len(b) >= 5 + POctets(b[5]) /\ WfPrefixListAP(Drop(b, 5 + POctets(b[5])))
RECURSIVE SplitPrefixesAP(_)
SplitPrefixesAP(b) == IF b = <<>> THEN <<>> ELSE <<<<SubSeq(b, 1, 4), b[5], SubSeq(b, 6, 5 + POctets(b[5]))>>>> \o SplitPrefixesAP(Drop(b, 5 + POctets(b[5])))
WfUpdateAP(m, asn4) ==
   /\ Len(m) >= 23 /\ Len(m) <= 4096 /\ Take(m, 16) = Marker /\ N16(m, 17) = Len(m) /\ m[19] = 2
   /\ LET b == Drop(m, 19)  wl == N16(b, 1) IN
      /\ Len(b) >= 4 + wl
      /\ LET al == N16(b, 3 + wl) IN
         /\ Len(b) >= 4 + wl + al
         /\ WfPrefixListAP(SubSeq(b, 3, 2 + wl))
         /\ WfAttrBlock(SubSeq(b, 5 + wl, 4 + wl + al), asn4, WfAttrVal)
         /\ WfPrefixListAP(Drop(b, 4 + wl + al))
NormUpdateAP(m) ==
   LET b == Drop(m, 19)  wl == N16(b, 1)  al == N16(b, 3 + wl) IN
   [wd |-> SplitPrefixesAP(SubSeq(b, 3, 2 + wl)), nlri |-> SplitPrefixesAP(Drop(b, 4 + wl + al))]


Pow2(n) == IF n = 0 THEN 1 ELSE CASE n = 1 -> 2 [] n = 2 -> 4 [] n = 3 -> 8 [] n = 4 -> 16 [] n = 5 -> 32 [] n = 6 -> 64 [] n = 7 -> 128 [] n = 8 -> 256
MaskOct(x, keep) == IF keep >= 8 THEN x ELSE IF keep <= 0 THEN 0 ELSE x - (x % Pow2(8 - keep))

(***************************** meaning of an encoding (C06) *****************)
\* Normal form of an UPDATE encoding: prefix lists as <<length, significant octets with the insignificant bits
\* cleared>>, attributes as <<type, optional/transitive bits, value octets>> sorted by type code.  Two encodings with
\* the same normal form say the same thing whatever legal variant (attribute order, extended length, trailing
\* bits) each one uses.  Only defined for structurally valid messages.
RECURSIVE SplitPrefixes(_)
SplitPrefixes(b) ==
   IF b = <<>> THEN <<>>
   ELSE LET n == POctets(b[1])
            oct == SubSeq(b, 2, 1 + n)
            clean == IF n = 0 \/ b[1] % 8 = 0 THEN oct ELSE [oct EXCEPT ![n] = MaskOct(oct[n], b[1] % 8)]
        IN <<<<b[1], clean>>>> \o SplitPrefixes(Drop(b, 1 + n))
RECURSIVE SortByType(_)
SortByType(as) ==
   IF as = <<>> THEN <<>>
   ELSE LET m == CHOOSE i \in 1..Len(as) : \A j \in 1..Len(as) : as[i][1] <= as[j][1]
        IN <<as[m]>> \o SortByType([k \in 1..(Len(as) - 1) |-> IF k < m THEN as[k] ELSE as[k + 1]])
NormUpdate(m) ==
   LET b == Drop(m, 19)
       wl == N16(b, 1)
       al == N16(b, 3 + wl)
       as == SplitAttrs(SubSeq(b, 5 + wl, 4 + wl + al))
   IN [wd |-> SplitPrefixes(SubSeq(b, 3, 2 + wl)),
       attrs |-> SortByType([i \in 1..Len(as) |-> <<as[i].t, (as[i].f \div 64) * 64, as[i].v>>]),
       nlri |-> SplitPrefixes(Drop(b, 4 + wl + al))]

(***************************** value pools *********************************)
Pfx(l, a) == [l |-> l, a |-> [i \in 1..Len(a) |-> MaskOct(a[i], l - 8 * (i - 1))]]
AllLen4 == {Pfx(l, a) : l \in 0..32, a \in {<<10, 77, 203, 13>>, <<255, 255, 255, 255>>}}
P6 == <<Pfx(0, <<0, 0, 0, 0>>), Pfx(1, <<128, 0, 0, 0>>), Pfx(8, <<10, 0, 0, 0>>), Pfx(25, <<1, 2, 3, 128>>), Pfx(32, <<9, 9, 9, 9>>), Pfx(24, <<192, 168, 7, 0>>)>>
U32Pool == {<<0, 0>>, <<0, 1>>, <<0, 32768>>, <<0, 65535>>, <<1, 0>>, <<32768, 0>>, <<65535, 65535>>}
As2 == {<<0, 1>>, <<0, 23456>>, <<0, 65535>>}
As4 == As2 \cup {<<1, 0>>, <<1, 4464>>, <<65535, 65535>>}
Ips == {<<10, 0, 0, 1>>, <<0, 0, 0, 0>>, <<255, 255, 255, 255>>}
Seg(st, as) == [st |-> st, asns |-> as]
LongAs(n) == [i \in 1..n |-> <<0, 64512 + (i % 1000)>>]
AsPaths(asn4) ==
   LET A == IF asn4 THEN As4 ELSE As2 IN
   {<<>>} \cup {<<Seg(st, <<a>>)>> : st \in 1..4, a \in A}
   \cup {<<Seg(2, <<a, b>>)>> : a, b \in A}
   \cup {<<Seg(2, <<<<0, 65001>>>>), Seg(1, <<<<0, 3>>, <<0, 4>>>>)>>, <<Seg(2, <<<<0, 1>>>>), Seg(2, <<<<0, 2>>>>)>>,
         <<Seg(3, <<<<0, 65010>>>>), Seg(4, <<<<0, 65011>>>>), Seg(2, <<<<0, 7>>>>)>>}
   \cup {<<Seg(2, LongAs(n))>> : n \in (IF asn4 THEN {62, 63, 64} ELSE {125, 126, 127, 128})}
   \* a segment with the largest count its one-octet count field can hold, and a path split after it
   \cup {<<Seg(st, LongAs(n))>> : st \in {1, 2}, n \in {254, 255}} \cup {<<Seg(2, LongAs(255)), Seg(2, LongAs(45))>>}
   \* several segments whose total crosses the 255-octet boundary although no single segment does, and the reverse
   \cup (IF asn4 THEN {<<Seg(2, LongAs(60)), Seg(1, LongAs(5))>>, <<Seg(3, LongAs(40)), Seg(2, LongAs(40))>>, <<Seg(1, LongAs(2)), Seg(2, LongAs(64))>>,
                       <<Seg(2, LongAs(31)), Seg(2, LongAs(31))>>, <<Seg(2, LongAs(31)), Seg(1, LongAs(32))>>}
          ELSE {<<Seg(3, LongAs(100)), Seg(2, LongAs(100))>>, <<Seg(2, LongAs(125)), Seg(1, LongAs(1))>>, <<Seg(1, LongAs(1)), Seg(2, LongAs(127))>>,
                <<Seg(2, LongAs(62)), Seg(2, LongAs(63))>>, <<Seg(2, LongAs(63)), Seg(4, LongAs(63))>>})
\* every well-known community the decoder names (IANA registry), plus reserved-range neighbours
WellKnownComm == {<<65535, x>> : x \in {0, 1, 2, 3, 4, 5, 6, 7, 8, 9, 10, 666, 65281, 65282, 65283, 65284, 65285, 65535}} \cup {<<0, 0>>}
Comms == {<<c>> : c \in WellKnownComm \cup {<<0, 1>>, <<100, 200>>, <<65000, 65535>>, <<1, 0>>}}
         \cup {<<<<100, 200>>, <<65535, 65281>>>>, <<<<1, 1>>, <<2, 2>>, <<3, 3>>>>}
         \* the largest lists that fit a one-octet attribute length (252 octets), one less, and the first that needs two octets
         \cup {[i \in 1..n |-> <<100, i>>] : n \in {62, 63, 64}}
ManyLarge(n) == [i \in 1..n |-> <<<<0, 1>>, <<0, 2>>, <<0, i>>>>]
Larges == {ManyLarge(n) : n \in {21, 22}} \cup {<<<<a, b, c>>>> : a \in {<<0, 1>>, <<32768, 0>>, <<65535, 65535>>}, b \in {<<0, 0>>, <<65535, 65535>>}, c \in {<<0, 2>>, <<32768, 1>>}}
          \cup {<<<<<<0, 1>>, <<0, 2>>, <<0, 3>>>>, <<<<1, 0>>, <<0, 0>>, <<0, 7>>>>>>}
\* extended communities as 8 octets: a few of each kind the decoder renders (the full set is in WireComm.tla)
ExtOne == {<<0, 2, 0, 100, 0, 0, 0, 200>>, <<1, 2, 1, 2, 3, 4, 0, 5>>, <<2, 2, 0, 1, 17, 112, 0, 5>>, <<0, 3, 255, 255, 255, 255, 255, 255>>,
           <<0, 2, 255, 255, 255, 255, 255, 255>>, <<2, 2, 255, 255, 255, 255, 255, 255>>}
Exts == {<<e>> : e \in ExtOne} \cup {<<<<0, 2, 0, 100, 0, 0, 0, 200>>, <<1, 2, 1, 2, 3, 4, 0, 5>>>>}
        \cup {[i \in 1..n |-> <<0, 2, 0, 100, 0, 0, 0, i>>] : n \in {31, 32}}
\* an attribute is the pair <<type code, value>>: a tuple, so that TLC orders attributes by type code first and never
\* has to compare values of different kinds
At(t, v) == <<t, v>>
Base(asn4) == <<At(1, 0), At(2, <<Seg(2, <<<<0, 65001>>>>)>>), At(3, <<10, 0, 0, 1>>)>>
\* every value of every attribute kind (the kind's type code first)
AttrValues(asn4) ==
   {At(1, v) : v \in 0..2} \cup {At(2, v) : v \in AsPaths(asn4)} \cup {At(3, v) : v \in Ips}
   \cup {At(4, v) : v \in U32Pool} \cup {At(5, v) : v \in U32Pool} \cup {At(6, 0)}
   \cup {At(7, [as |-> a, ip |-> i]) : a \in (IF asn4 THEN As4 ELSE As2), i \in Ips}
   \cup {At(8, v) : v \in Comms} \cup {At(9, v) : v \in Ips} \cup {At(10, <<v>>) : v \in Ips} \cup {At(10, <<<<1, 1, 1, 1>>, <<2, 2, 2, 2>>, <<3, 3, 3, 3>>>>)}
   \cup {At(10, [i \in 1..n |-> <<10, 0, 0, i>>]) : n \in {63, 64}}
   \cup {At(16, v) : v \in Exts} \cup {At(32, v) : v \in Larges}
OneOfKind(t, asn4) == CHOOSE a \in AttrValues(asn4) : a[1] = t /\ (t = 2 => Len(a[2]) = 2) /\ (t = 8 => Len(a[2]) = 2)
OptKinds == {4, 5, 6, 7, 8, 9, 10, 16, 32}
Upd(wd, attrs, nlri) == [wd |-> wd, attrs |-> attrs, nlri |-> nlri]
N1 == <<P6[6]>>
\* replace / add attribute a in the base set (mandatory ones replaced in place)
WithAttr(asn4, a) == IF a[1] \in {1, 2, 3} THEN [i \in 1..3 |-> IF Base(asn4)[i][1] = a[1] THEN a ELSE Base(asn4)[i]] ELSE Append(Base(asn4), a)
RECURSIVE SeqOfSet(_)
SeqOfSet(S) == IF S = {} THEN <<>> ELSE LET x == CHOOSE x \in S : \A y \in S : x <= y IN <<x>> \o SeqOfSet(S \ {x})
AllOpt(asn4) == LET ks == SeqOfSet(OptKinds) IN Base(asn4) \o [i \in 1..Len(ks) |-> OneOfKind(ks[i], asn4)]

\* the UPDATE values of the quick tier (DESIGN.md 5 C06): each is something a REST client can meaningfully send
Updates(asn4) ==
   {Upd(<<>>, Base(asn4), <<p>>) : p \in AllLen4}                                         \* every prefix length, announced
   \cup {Upd(<<p>>, <<>>, <<>>) : p \in AllLen4}                                          \* ... and withdrawn
   \cup {Upd(<<>>, Base(asn4), <<P6[i], P6[j]>>) : i, j \in 1..6}                         \* every ordered pair
   \cup {Upd(<<P6[i], P6[j]>>, <<>>, <<>>) : i, j \in 1..6}
   \cup {Upd(<<>>, Base(asn4), <<P6[i], P6[j], P6[k]>>) : i, j, k \in {1, 2, 4, 5}}
   \cup {Upd(<<P6[i]>>, Base(asn4), <<P6[j]>>) : i, j \in 1..6}                           \* announce + withdraw in one message
   \* path attributes and withdrawn routes but nothing announced (a client that sends a route's attributes with its withdrawal)
   \cup {Upd(<<P6[i]>>, Base(asn4), <<>>) : i \in 1..6} \cup {Upd(<<P6[3], P6[5]>>, AllOpt(asn4), <<>>)}
   \cup {Upd(<<>>, WithAttr(asn4, a), N1) : a \in AttrValues(asn4)}                       \* every attribute value alone
   \cup {Upd(<<>>, Base(asn4) \o <<OneOfKind(s, asn4), OneOfKind(t, asn4)>>, N1) : s, t \in OptKinds}  \* every pair of kinds (s = t filtered below)
   \cup {Upd(<<>>, AllOpt(asn4), N1), Upd(<<P6[1]>>, AllOpt(asn4), <<P6[1], P6[5]>>)}      \* all together
NoDupKinds(u) == \A i, j \in 1..Len(u.attrs) : i # j => u.attrs[i][1] # u.attrs[j][1]
UpdatePool(asn4) == {u \in Updates(asn4) : NoDupKinds(u)}

\* the wider pool of the thorough tier: every pair of attribute VALUES (not only kinds), every mandatory value next to
\* every optional value, every attribute value with an announce + withdraw pair
OptValues(asn4) == {a \in AttrValues(asn4) : a[1] \in OptKinds}
ManValues(asn4) == {a \in AttrValues(asn4) : a[1] \in {1, 2, 3}}
UpdatesWide(asn4) ==
   {Upd(<<>>, Base(asn4) \o <<a, b>>, N1) : a, b \in OptValues(asn4)}
   \cup {Upd(<<>>, Append(WithAttr(asn4, a), b), N1) : a \in ManValues(asn4), b \in OptValues(asn4)}
   \cup {Upd(<<P6[i]>>, WithAttr(asn4, a), <<P6[j]>>) : i, j \in {1, 2, 5}, a \in AttrValues(asn4)}
WidePool(asn4) == {u \in UpdatesWide(asn4) : NoDupKinds(u) /\ (Len(u.attrs) = 5 => u.attrs[4][1] < u.attrs[5][1])} \ UpdatePool(asn4)

\* add-path vectors: one to three prefixes with identifiers from the boundary pool
PathIds == {<<0, 0, 0, 0>>, <<0, 0, 0, 1>>, <<0, 1, 0, 0>>, <<255, 255, 255, 255>>}
AddPathVecs ==
   {[u |-> Upd(<<>>, Base(TRUE), <<P6[i]>>), wids |-> <<>>, nids |-> <<a>>] : i \in 1..6, a \in PathIds}
   \cup {[u |-> Upd(<<P6[i]>>, <<>>, <<>>), wids |-> <<a>>, nids |-> <<>>] : i \in 1..6, a \in PathIds}
   \cup {[u |-> Upd(<<P6[i]>>, Base(TRUE), <<P6[j], P6[5]>>), wids |-> <<a>>, nids |-> <<b, a>>] : i, j \in {1, 4, 5}, a, b \in PathIds}

(***************************** C09: legal variants and corruptions *********)
Variants == {[ext |-> e, dirty |-> d, pathids |-> p] : e, d, p \in BOOLEAN}
Reverse(s) == [i \in 1..Len(s) |-> s[Len(s) + 1 - i]]
Rotate(s) == IF s = <<>> THEN s ELSE Tail(s) \o <<Head(s)>>
\* decode-only values: AS4_PATH / AS4_AGGREGATOR next to 2-octet AS_PATH, unknown attribute between known ones
DecodeOnly ==
   {Upd(<<>>, Base(FALSE) \o <<At(17, <<Seg(2, <<<<1, 4464>>, <<0, 7>>>>)>>)>>, N1),
    Upd(<<>>, Base(FALSE) \o <<At(7, [as |-> <<0, 23456>>, ip |-> <<1, 2, 3, 4>>]), At(18, [as |-> <<1, 4464>>, ip |-> <<1, 2, 3, 4>>])>>, N1),
    Upd(<<>>, <<At(1, 0), At(200, <<1, 2, 3>>), At(2, <<Seg(2, <<<<0, 65001>>>>)>>), At(201, <<>>), At(3, <<10, 0, 0, 1>>)>>, N1)}
\* every rotation of an attribute list and its reverse: every pair of attributes occurs in both orders
RECURSIVE RotN(_, _)
RotN(s, k) == IF k = 0 THEN s ELSE RotN(Rotate(s), k - 1)
Orders(s) == {RotN(s, k) : k \in 0..(Len(s) - 1)} \cup {Reverse(RotN(s, k)) : k \in 0..(Len(s) - 1)}
\* single-field corruptions of an encoding the decoder has to flag (as [name, bytes] of an UPDATE body)
Subst(b, i, x) == [b EXCEPT ![i] = x]
Corruptions ==
   LET good == Upd(<<>>, Base(TRUE) \o <<At(4, <<0, 5>>), At(5, <<0, 100>>), At(6, 0), At(9, <<1, 1, 1, 1>>)>>, <<P6[6]>>)
       bad(attrsBytes, nlriBytes) == U16(0) \o U16(Len(attrsBytes)) \o attrsBytes \o nlriBytes
       base == EncAttrs(Base(TRUE), TRUE, FALSE)
       nl == EncPrefix(P6[6])
   IN {[name |-> "origin3", b |-> bad(<<64, 1, 1, 3>> \o Drop(base, 4), nl)],
       [name |-> "origin255", b |-> bad(<<64, 1, 1, 255>> \o Drop(base, 4), nl)],
       [name |-> "originlen2", b |-> bad(<<64, 1, 2, 0, 0>> \o Drop(base, 4), nl)],
       [name |-> "plen33", b |-> bad(base, <<33, 1, 2, 3, 4, 5>>)],
       [name |-> "plen255", b |-> bad(base, <<255, 1, 2, 3, 4>>)],
       [name |-> "wdlen33", b |-> U16(6) \o <<33, 1, 2, 3, 4, 5>> \o U16(0)],
       [name |-> "segtype0", b |-> bad(<<64, 1, 1, 0, 64, 2, 6, 0, 1, 0, 0, 253, 233, 64, 3, 4, 10, 0, 0, 1>>, nl)],
       [name |-> "segtype5", b |-> bad(<<64, 1, 1, 0, 64, 2, 6, 5, 1, 0, 0, 253, 233, 64, 3, 4, 10, 0, 0, 1>>, nl)],
       [name |-> "nexthoplen3", b |-> bad(<<64, 1, 1, 0, 64, 2, 0, 64, 3, 3, 10, 0, 0>>, nl)],
       [name |-> "nexthoplen5", b |-> bad(<<64, 1, 1, 0, 64, 2, 0, 64, 3, 5, 10, 0, 0, 1, 1>>, nl)],
       [name |-> "medlen3", b |-> bad(base \o <<128, 4, 3, 0, 0, 1>>, nl)],
       [name |-> "lplen5", b |-> bad(base \o <<64, 5, 5, 0, 0, 0, 0, 1>>, nl)],
       [name |-> "atomiclen1", b |-> bad(base \o <<64, 6, 1, 0>>, nl)],
       [name |-> "aggrlen5", b |-> bad(base \o <<192, 7, 5, 0, 0, 1, 2, 3>>, nl)],
       [name |-> "origidlen3", b |-> bad(base \o <<128, 9, 3, 1, 1, 1>>, nl)]}
   \* every attribute of fixed length, one octet too short and one too long (and AGGREGATOR in the width of the other AS mode)
   \cup {[name |-> "origin-len0", b |-> bad(<<64, 1, 0>> \o Drop(base, 4), nl)],
         [name |-> "nexthop-len0", b |-> bad(<<64, 1, 1, 0, 64, 2, 0, 64, 3, 0>>, nl)],
         [name |-> "med-len5", b |-> bad(base \o <<128, 4, 5, 0, 0, 0, 1, 0>>, nl)],
         [name |-> "med-len0", b |-> bad(base \o <<128, 4, 0>>, nl)],
         [name |-> "lp-len3", b |-> bad(base \o <<64, 5, 3, 0, 0, 1>>, nl)],
         [name |-> "lp-len0", b |-> bad(base \o <<64, 5, 0>>, nl)],
         [name |-> "atomic-len4", b |-> bad(base \o <<64, 6, 4, 0, 0, 0, 0>>, nl)],
         [name |-> "aggr-len7", b |-> bad(base \o <<192, 7, 7, 0, 0, 1, 2, 3, 4, 5>>, nl)],
         [name |-> "aggr-len9", b |-> bad(base \o <<192, 7, 9, 0, 0, 253, 233, 1, 2, 3, 4, 0>>, nl)],
         [name |-> "aggr-len6-on-as4", b |-> bad(base \o <<192, 7, 6, 253, 233, 1, 2, 3, 4>>, nl)],
         [name |-> "aggr-len0", b |-> bad(base \o <<192, 7, 0>>, nl)],
         [name |-> "origid-len5", b |-> bad(base \o <<128, 9, 5, 1, 1, 1, 1, 0>>, nl)],
         [name |-> "origid-len0", b |-> bad(base \o <<128, 9, 0>>, nl)],
         [name |-> "as4aggr-len7", b |-> bad(base \o <<192, 18, 7, 0, 0, 253, 233, 1, 2, 3>>, nl)],
         [name |-> "as4aggr-len12", b |-> bad(base \o <<192, 18, 12, 0, 0, 253, 233, 1, 2, 3, 4, 0, 0, 0, 0>>, nl)]}
   \* ... and other multiples of the right length (a decoder that tests `len % 4` or reads the first octets only), in the
   \* one-octet and in the extended length form
   \cup {[name |-> "nexthop-len8", b |-> bad(<<64, 1, 1, 0, 64, 2, 0, 64, 3, 8, 10, 0, 0, 1, 10, 0, 0, 2>>, nl)],
         [name |-> "nexthop-len12-ext", b |-> bad(<<64, 1, 1, 0, 64, 2, 0, 80, 3, 0, 12, 10, 0, 0, 1, 10, 0, 0, 2, 10, 0, 0, 3>>, nl)],
         [name |-> "med-len8", b |-> bad(base \o <<128, 4, 8, 0, 0, 0, 1, 0, 0, 0, 2>>, nl)],
         [name |-> "lp-len8", b |-> bad(base \o <<64, 5, 8, 0, 0, 0, 1, 0, 0, 0, 2>>, nl)],
         [name |-> "origid-len8", b |-> bad(base \o <<128, 9, 8, 1, 1, 1, 1, 2, 2, 2, 2>>, nl)],
         [name |-> "origid-len12-ext", b |-> bad(base \o <<144, 9, 0, 12, 1, 1, 1, 1, 2, 2, 2, 2, 3, 3, 3, 3>>, nl)],
         [name |-> "origid-len16", b |-> bad(base \o <<128, 9, 16>> \o [i \in 1..16 |-> 1], nl)],
         [name |-> "aggr-len16", b |-> bad(base \o <<192, 7, 16, 0, 0, 253, 233, 1, 2, 3, 4, 0, 0, 0, 0, 0, 0, 0, 0>>, nl)],
         [name |-> "origin-len4", b |-> bad(<<64, 1, 4, 0, 0, 0, 0>> \o Drop(base, 4), nl)]}
\* the same kind of corruption on a 2-octet-AS session (AGGREGATOR is 6 octets there)
Base2 == EncAttrs(Base(FALSE), FALSE, FALSE)
Corruptions2 ==
   LET bad(attrsBytes) == U16(0) \o U16(Len(attrsBytes)) \o attrsBytes \o EncPrefix(P6[6]) IN
   {[name |-> "as2-aggr-len5", b |-> bad(Base2 \o <<192, 7, 5, 253, 233, 1, 2, 3>>)],
    [name |-> "as2-aggr-len7", b |-> bad(Base2 \o <<192, 7, 7, 253, 233, 1, 2, 3, 4, 0>>)],
    [name |-> "as2-aggr-len8", b |-> bad(Base2 \o <<192, 7, 8, 0, 0, 253, 233, 1, 2, 3, 4>>)],
    [name |-> "as2-as4aggr-len12", b |-> bad(Base2 \o <<192, 7, 6, 253, 233, 1, 2, 3, 4>> \o <<192, 18, 12, 0, 0, 253, 233, 1, 2, 3, 4, 0, 0, 0, 0>>)],
    [name |-> "as2-as4aggr-len6", b |-> bad(Base2 \o <<192, 7, 6, 253, 233, 1, 2, 3, 4>> \o <<192, 18, 6, 0, 0, 253, 233, 1, 2>>)]}
=============================================================================
