---------------------------- MODULE SessionProps ----------------------------
(***************************************************************************)
(* Layer P on the model: every transition of Session.tla is turned into    *)
(* the same step record the harness records from the real agent            *)
(* (LineOf) and judged by the same clause operators of Props.tla.          *)
(* A rejection here is a CANDIDATE (DESIGN.md 2.3): the harness replays    *)
(* the offending transition on the real code and only a rejected recorded  *)
(* trace is a violation.  Clauses that need timing history (C03, C01.estab)*)
(* are evaluated on traces only.                                           *)
(***************************************************************************)
EXTENDS Session, Props

MsgCls(m, h) ==
   CASE m = "OPEN" -> IF h \in {1, 2} THEN "OPEN_BADHOLD" ELSE "OPEN_OK"
     [] m = "OPENBADVER" -> "OPEN_BADVER" [] m = "OPENBADAS" -> "OPEN_BADAS" [] m = "OPENSHORT" -> "OPEN_SHORT"
     [] m = "KA" -> "KA" [] m = "KABODY" -> "KA_BODY" [] m = "UPD" -> "UPD" [] m = "UPDBAD" -> "UPD_BAD"
     [] m = "NOTIFVER" -> "NOTIF_VER" [] m = "NOTIF" -> "NOTIF" [] m = "NOTIFSHORT" -> "NOTIF_SHORT"
     [] m = "RR" -> "RR" [] m = "RRBAD" -> "RR_BAD" [] m = "BADMARKER" -> "HDR_MARKER"
     [] m \in {"BADLEN", "BADLENSMALL"} -> "HDR_LEN" [] m = "BADTYPE" -> "HDR_TYPE"
ClsOf(e) ==
   CASE e.k = "msg" -> MsgCls(e.m, e.h)
     [] e.k = "fire" -> (CASE e.t = "cr" -> "T_CR" [] e.t = "hold" -> "T_HOLD" [] e.t = "ka" -> "T_KA" [] e.t = "idle" -> "T_IDLE")
     [] e.k = "boot" -> "BOOT" [] e.k = "connOk" -> "CONN_OK" [] e.k \in {"connRefused", "tcpTimeout"} -> "CONN_FAIL"
     [] e.k = "connLost" -> "CONN_LOST" [] e.k = "tick" -> "TICK" [] e.k = "stop" -> "STOP" [] e.k = "start" -> "START" [] e.k = "rest" -> "REST"
     [] OTHER -> "OTHER"

\* what the harness asks through REST for a model-level request kind, and what the model says the answer is
RqOf(e) ==
   LET z == [cls |-> "", valid |-> FALSE, etype |-> "", wdn |-> 0, nln |-> 0, ats |-> <<>>, ibgp |-> FALSE, lp |-> -1, aspl |-> -1, rr |-> <<-1, -1, -1>>] IN
   IF e.k # "rest" THEN z
   ELSE CASE e.m \in {"SEND_UPDATE", "BADCRED_SEND"} -> [z EXCEPT !.cls = "send", !.valid = TRUE, !.etype = "UPDATE", !.nln = 1, !.ats = <<1, 2, 3>>]
          [] e.m = "SEND_RR" -> [z EXCEPT !.cls = "send", !.valid = TRUE, !.etype = "RR"]
          [] e.m = "READ_STATE" -> [z EXCEPT !.cls = "read"]
          [] OTHER -> [z EXCEPT !.cls = "ctl"]
RestOf(e, a) ==
   IF e.k # "rest" THEN [rule |-> "", method |-> "", cred |-> "", status |-> 200, ok |-> 1, hasbin |-> FALSE]
   ELSE CASE e.m = "SEND_UPDATE" -> [rule |-> "send/update", method |-> "POST", cred |-> "good", status |-> 200, ok |-> IF a.st = "ESTABLISHED" THEN 1 ELSE 2, hasbin |-> FALSE]
          [] e.m = "SEND_RR" -> [rule |-> "send/route-refresh", method |-> "POST", cred |-> "good", status |-> 200, ok |-> IF a.st = "ESTABLISHED" THEN 1 ELSE 2, hasbin |-> FALSE]
          [] e.m = "READ_STATE" -> [rule |-> "state", method |-> "GET", cred |-> "good", status |-> 200, ok |-> 0, hasbin |-> FALSE]
          [] e.m = "BADCRED_SEND" -> [rule |-> "send/update", method |-> "POST", cred |-> "badpass", status |-> 401, ok |-> 0, hasbin |-> FALSE]
          [] OTHER -> [rule |-> "manual-stop", method |-> "GET", cred |-> "none", status |-> 401, ok |-> 0, hasbin |-> FALSE]
CsOf(r, c) == IF c = 0 THEN "none" ELSE r.conns[c].cs
LeakOf(r) == Cardinality({c \in 1..Len(r.conns) : r.conns[c].cs = "open" /\ c # r.cur})
PendOf(r) == Cardinality({t \in Timers : r.tm[t] # Off}) +
             Cardinality({c \in 1..Len(r.conns) : r.conns[c].cs \in {"connecting", "closing"}})
\* the record replay_session.py writes for a step of the real agent, built from a model transition s -e-> t
LineOf(a, e, b) ==
   [tid |-> Id(Clr(a))[1], i |-> Id(Clr(a))[2], k |-> e.k, cls |-> ClsOf(e), c |-> e.c, m |-> e.m, h |-> e.h, t |-> e.t,
    now |-> 0, pnow |-> 0, ontr |-> (e.c # 0 /\ e.c = a.cur), ccs |-> CsOf(a, e.c),
    pst |-> a.st, st |-> b.st, plive |-> Cardinality(LiveSet(a)), live |-> Cardinality(LiveSet(b)),
    ptr |-> a.cur, tr |-> b.trk, ptrcs |-> CsOf(a, a.cur), trcs |-> b.trks,
    pleak |-> LeakOf(a), leak |-> LeakOf(b), pend |-> PendOf(b),
    out |-> [k \in 1..Len(b.out) |-> b.out[k] @@ [wdn |-> 0, nln |-> 1, ats |-> <<1, 2, 3>>, lp |-> -1, aspl |-> -1, rr |-> <<-1, -1, -1>>]], rep |-> b.rep, closes |-> b.cl, att |-> b.att, exc |-> 0, hang |-> FALSE,
    sS |-> <<>>, sR |-> <<>>, wS |-> <<>>, wR |-> <<>>, fz |-> "", flen |-> 0, probeok |-> TRUE, rptsame |-> TRUE, aspathok |-> TRUE, binsame |-> TRUE, acc |-> 0, esub |-> 0,
    rq |-> RqOf(e), statsame |-> (b.out = <<>>), rest |-> RestOf(e, a)]
\* in the model "manual stop in force" is exactly allow_automatic_start = FALSE
MonOf(a) == [Mon0 EXCEPT !.stopped = IF a.allow THEN "no" ELSE "yes", !.restarted = a.allow]      \* (coop0 = -1: the cooperative clauses are checked by Coop.tla)

CheckStep == Check(MonOf(s), LineOf(s, ev', s'))
=============================================================================
