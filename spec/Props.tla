------------------------------- MODULE Props -------------------------------
(***************************************************************************)
(* Layer P: the session-family properties (C01-C03, C05, C10, C12, C13,     *)
(* C18), each written once as an operator over one observed step `r`        *)
(* (a record with the fields of DESIGN.md Appendix B) and the monitor       *)
(* record `mon` that carries the history a clause needs.                    *)
(*                                                                         *)
(* Used twice: TraceProps.tla evaluates them on executions recorded from    *)
(* the REAL agent (the verdict); SessionProps.tla evaluates them on every   *)
(* transition of the implementation-shaped model Session.tla (candidates).  *)
(* Collect-all: a rejected clause prints "@R <json>" and evaluation goes on.*)
(***************************************************************************)
EXTENDS Naturals, Integers, Sequences, FiniteSets, TLC, TLCExt, Json

CONSTANTS PROPS        \* set of property ids whose clauses are evaluated, e.g. {"C01","C12"}

Session == {"OPENSENT", "OPENCONFIRM", "ESTABLISHED"}
Up == {"OPENCONFIRM", "ESTABLISHED"}
PeerMsg == {"OPEN_ANY", "OPEN_OK", "OPEN_BADVER", "OPEN_BADAS", "OPEN_BADHOLD", "OPEN_SHORT", "KA", "KA_BODY", "UPD", "UPD_BAD",
            "NOTIF_VER", "NOTIF", "NOTIF_SHORT", "RR", "RR_BAD", "HDR_MARKER", "HDR_LEN", "HDR_TYPE", "DATA",
            "FUZZ_OPEN", "FUZZ_UPD", "FUZZ_NOTIF", "FUZZ_RR", "FUZZ_KA", "FUZZ_RAW", "PROBE", "UPD_AS"}
TimerEv == {"T_CR", "T_HOLD", "T_KA", "T_IDLE", "T_DUE"}
MsgReports == {"update_received", "on_update_error", "open_received", "keepalive_received",
               "notification_received", "route_refresh_received"}

Rej(r, clause, extra) ==
   PrintT("@R " \o ToJson([tid |-> r.tid, i |-> r.i, clause |-> clause, pst |-> r.pst, cls |-> r.cls, extra |-> extra,
                            ev |-> [k |-> r.k, c |-> r.c, m |-> r.m, h |-> r.h, t |-> r.t]]))
Chk(p, r, clause, cond, extra) == IF p \notin PROPS \/ cond THEN TRUE ELSE Rej(r, clause, extra)

(***************************** line helpers ********************************)
Outs(r) == [k \in 1..Len(r.out) |-> <<r.out[k].type, r.out[k].code, r.out[k].sub>>]
OutTypes(r) == [k \in 1..Len(r.out) |-> r.out[k].type]
HasOut(r, typ) == \E k \in 1..Len(r.out) : r.out[k].type = typ
InSeq(x, sq) == \E k \in 1..Len(sq) : sq[k] = x
TrackedClosed(r) == r.ptr # 0 /\ (InSeq(r.ptr, r.closes) \/ (r.tr = r.ptr /\ r.trcs \in {"closing", "closed"}))
NoClose(r) == r.closes = <<>>
Quiet(r) == r.out = <<>> /\ r.closes = <<>> /\ r.att = 0
Ignored(r) == r.st = r.pst /\ Quiet(r)
\* ERR(code, sub): one NOTIFICATION(code, sub) to the tracked connection, close it, go to Idle (sub -1 = any)
IsErr(r, code, sub) ==
   /\ Len(r.out) = 1 /\ r.out[1].type = "NOTIFICATION" /\ r.out[1].code = code /\ (sub = -1 \/ r.out[1].sub = sub)
   /\ r.out[1].c = r.ptr /\ TrackedClosed(r) /\ r.st = "IDLE" /\ r.att = 0
ClosedQuietly(r) == r.out = <<>> /\ TrackedClosed(r) /\ r.st = "IDLE" /\ r.att = 0
\* the step is inside the single-connection regime (scope of C01)
Single(r) == r.plive <= 1 /\ r.pleak = 0 /\ r.live <= 1
\* a peer message that reached the agent on the tracked connection while that connection was open
Live(r) == r.cls \in PeerMsg /\ r.ontr /\ r.ccs = "open"
NMsgReports(r) == Cardinality({k \in 1..Len(r.rep) : r.rep[k] \in MsgReports})

(***************************** C01: RFC 4271 profile ***********************)
\* DESIGN.md Appendix A, written from RFC 4271 sections 6 and 8 and the property text, not from the code.
C01_Table(r, stopped) ==
   LET p == r.pst  c == r.cls IN
   CASE c = "TICK" -> Ignored(r)
     \* the start-up AutomaticStart: connects from Idle unless the operator has stopped the peer before; ignored in every
     \* other state (RFC 4271 8.2.2: start events are ignored outside Idle)
     [] c = "BOOT" -> IF p = "IDLE" /\ ~stopped THEN (r.st = "CONNECT" /\ r.att = 1 /\ r.out = <<>>) ELSE Ignored(r) /\ r.att = 0
     [] c = "START" -> IF p = "IDLE" THEN (r.plive = 0 => (r.st = "CONNECT" /\ r.att = 1 /\ r.out = <<>>)) ELSE Ignored(r)
     [] c = "STOP" ->
         (CASE p = "ESTABLISHED" -> IsErr(r, 6, -1)
            [] p \in {"OPENSENT", "OPENCONFIRM"} -> ClosedQuietly(r) \/ IsErr(r, 6, -1)
            [] OTHER -> r.st = "IDLE" /\ r.out = <<>> /\ r.att = 0)
     [] c = "CONN_OK" ->
          IF p \in {"CONNECT", "ACTIVE"}
          THEN r.st = "OPENSENT" /\ OutTypes(r) = <<"OPEN">> /\ r.out[1].c = r.c /\ r.tr = r.c /\ NoClose(r) /\ r.att = 0
          ELSE TRUE
     [] c = "CONN_FAIL" -> p = "CONNECT" => (r.st = "IDLE" /\ r.out = <<>> /\ r.att = 0)
     [] c = "CONN_LOST" ->
          IF ~r.ontr THEN TRUE
          ELSE IF r.ccs = "closing" THEN r.st = p /\ r.out = <<>> /\ r.att = 0       \* our own close completed: no RFC event
          ELSE (CASE p = "OPENSENT" -> r.st \in {"ACTIVE", "IDLE"} /\ r.out = <<>> /\ r.att = 0
                 [] p \in Up -> r.st = "IDLE" /\ r.out = <<>> /\ r.att = 0
                 [] OTHER -> TRUE)
     [] c = "T_CR" ->
         (CASE p \in {"CONNECT", "ACTIVE"} -> r.st = "CONNECT" /\ r.att = 1 /\ r.out = <<>>
            [] p \in Session -> IsErr(r, 5, -1)
            [] OTHER -> Ignored(r))
     \* hold and keepalive timers belong to a session: they run in OpenSent (hold) and OpenConfirm / Established only
     \* (RFC 4271 leaves the large hold timer running when OpenSent falls back to Active on a TCP failure; its expiry
     \*  in Idle is ignored and in Connect / Active is an "any other event": Idle.  The keepalive timer has no such path.)
     [] c = "T_HOLD" -> IF p \in Session THEN IsErr(r, 4, 0)
                        ELSE IF p = "IDLE" THEN Ignored(r)
                        ELSE Ignored(r) \/ (r.st = "IDLE" /\ Outs(r) = <<>>)
     [] c = "T_KA" -> p \in Up /\ r.st = p /\ Outs(r) = <<<<"KEEPALIVE", 0, 0>>>> /\ r.out[1].c = r.ptr /\ NoClose(r) /\ r.att = 0
     [] c = "T_IDLE" -> IF p = "IDLE" /\ ~stopped THEN (r.plive = 0 => (r.st = "CONNECT" /\ r.att = 1 /\ r.out = <<>>))
                        ELSE Ignored(r)
     [] c \in PeerMsg /\ ~Live(r) ->
          \* input on a connection the agent already asked to close (T6), or not the tracked one: Idle column
          r.st = p /\ r.att = 0 /\ r.closes = <<>> /\
          (r.out = <<>> \/ (c \in {"HDR_MARKER", "HDR_LEN", "HDR_TYPE"} /\ Len(r.out) = 1 /\ r.out[1].type = "NOTIFICATION" /\ r.out[1].code = 1))
     [] c \in PeerMsg /\ p \notin Session -> TRUE       \* no open tracked connection exists in Idle/Connect/Active (single regime)
     [] c = "OPEN_OK" ->
         (CASE p = "OPENSENT" -> r.st = "OPENCONFIRM" /\ Outs(r) = <<<<"KEEPALIVE", 0, 0>>>> /\ r.out[1].c = r.ptr /\ NoClose(r) /\ r.att = 0
            [] p = "OPENCONFIRM" -> Ignored(r) \/ IsErr(r, 5, -1) \/ IsErr(r, 6, -1)
            [] OTHER -> IsErr(r, 5, -1) \/ IsErr(r, 6, -1))
     \* an OPEN of arbitrary content (well framed, at least the minimum length): accepted, or answered with an OPEN Message
     \* Error / header length error - never dropped; later states as for any OPEN
     [] c = "OPEN_ANY" ->
         (CASE p = "OPENSENT" -> (r.st = "OPENCONFIRM" /\ Outs(r) = <<<<"KEEPALIVE", 0, 0>>>> /\ NoClose(r)) \/ IsErr(r, 2, -1) \/ IsErr(r, 1, 2)
            [] p = "OPENCONFIRM" -> Ignored(r) \/ IsErr(r, 5, -1) \/ IsErr(r, 6, -1) \/ IsErr(r, 2, -1) \/ IsErr(r, 1, 2)
            [] OTHER -> IsErr(r, 5, -1) \/ IsErr(r, 6, -1) \/ IsErr(r, 2, -1) \/ IsErr(r, 1, 2))
     [] c = "OPEN_BADVER" -> IF p = "OPENSENT" THEN IsErr(r, 2, 1) ELSE (IsErr(r, 2, 1) \/ IsErr(r, 5, -1) \/ (p = "OPENCONFIRM" /\ Ignored(r)))
     [] c = "OPEN_BADAS" -> IF p = "OPENSENT" THEN IsErr(r, 2, 2) ELSE (IsErr(r, 2, 2) \/ IsErr(r, 5, -1) \/ (p = "OPENCONFIRM" /\ Ignored(r)))
     [] c = "OPEN_BADHOLD" -> IF p = "OPENSENT" THEN IsErr(r, 2, 6) ELSE (IsErr(r, 2, 6) \/ IsErr(r, 5, -1) \/ (p = "OPENCONFIRM" /\ Ignored(r)))
     [] c \in {"OPEN_SHORT", "KA_BODY", "HDR_LEN"} -> IsErr(r, 1, 2)
     [] c = "HDR_MARKER" -> IsErr(r, 1, 1)
     [] c = "HDR_TYPE" -> IsErr(r, 1, 3)
     [] c = "KA" ->
         (CASE p = "OPENSENT" -> IsErr(r, 5, -1)
            [] p = "OPENCONFIRM" -> r.st = "ESTABLISHED" /\ Quiet(r)
            [] OTHER -> Ignored(r))
     [] c \in {"UPD", "UPD_BAD"} -> IF p = "ESTABLISHED" THEN Ignored(r) ELSE IsErr(r, 5, -1)
     [] c = "NOTIF_VER" -> ClosedQuietly(r)
     [] c = "NOTIF" -> ClosedQuietly(r) \/ (p = "OPENSENT" /\ IsErr(r, 5, -1))
     [] c = "NOTIF_SHORT" -> ClosedQuietly(r) \/ IsErr(r, 1, 2) \/ Ignored(r)
     [] c = "RR" -> IF p = "ESTABLISHED" THEN Ignored(r) ELSE (Ignored(r) \/ IsErr(r, 5, -1))
     [] c = "RR_BAD" -> Ignored(r) \/ IsErr(r, 1, 2) \/ IsErr(r, 7, -1)
     [] OTHER -> TRUE

\* Established is entered only by a KEEPALIVE on the tracked connection after our OPEN, a valid peer OPEN and our KEEPALIVE
C01_Estab(mon, r) ==
   (r.st = "ESTABLISHED" /\ r.pst # "ESTABLISHED") =>
      (r.cls = "KA" /\ r.ontr /\ r.pst = "OPENCONFIRM" /\ mon.sess.conn = r.c /\ mon.sess.sentOpen /\ mon.sess.gotOpen /\ mon.sess.sentKa)

(***************************** C03: timer contract *************************)
\* all comparisons cross-multiplied: (ticks * TNUM) vs (seconds * TDEN)
TN(mon) == mon.cfg.tnum
TD(mon) == mon.cfg.tden
NegH(mon) == mon.sess.H
InUp(mon, r) == r.pst \in Up /\ mon.sess.conn = r.ptr /\ mon.sess.gotOpen
HoldDue(mon, r) ==   \* the instant at which the hold time runs out, measured at the time of this line
   \/ (InUp(mon, r) /\ NegH(mon) > 0 /\ (r.now - mon.sess.heard) * TN(mon) = NegH(mon) * TD(mon))
   \/ (r.pst = "OPENSENT" /\ mon.sess.conn = r.ptr /\ (r.now - mon.sess.start) * TN(mon) = 240 * TD(mon))
C03_Tick(mon, r) ==
   r.cls = "TICK" =>
      /\ (InUp(mon, r) /\ NegH(mon) > 0) => ((r.pnow - mon.sess.kasent) * TN(mon) * 3 < NegH(mon) * TD(mon))       \* keepalive at least every H/3
      /\ (InUp(mon, r) /\ NegH(mon) > 0) => ((r.pnow - mon.sess.heard) * TN(mon) < NegH(mon) * TD(mon))             \* expiry not later than H
      /\ (r.pst = "OPENSENT" /\ mon.sess.conn = r.ptr) => ((r.pnow - mon.sess.start) * TN(mon) < 240 * TD(mon))
C03_Expire(mon, r) ==    \* Hold Timer Expired is sent exactly when the hold time runs out, then close and Idle
   (\E k \in 1..Len(r.out) : r.out[k].type = "NOTIFICATION" /\ r.out[k].code = 4) =>
      (r.cls \in TimerEv /\ HoldDue(mon, r) /\ IsErr(r, 4, 0))
\* ... and conversely: when a timer ends a session (by C03.nodrop that is the hold time running out), the peer is told so:
\* NOTIFICATION Hold Timer Expired on the connection of the session, close, Idle
C03_Expired(mon, r) ==
   (r.cls \in TimerEv /\ r.pst \in Session /\ r.st \notin Session /\ Single(r)) => IsErr(r, 4, 0)
C03_NoDrop(mon, r) ==    \* time alone never ends a session before the hold time has run out
   (r.cls \in TimerEv \cup {"TICK"} /\ r.pst \in Session /\ r.st \notin Session) => HoldDue(mon, r)
C03_HoldZero(mon, r) ==  \* H = 0: no periodic keepalives, silence never ends the session
   (InUp(mon, r) /\ NegH(mon) = 0 /\ r.cls \in TimerEv \cup {"TICK"}) => (r.out = <<>> /\ r.st = r.pst /\ NoClose(r))
C03_KaOnTime(mon, r) ==  \* a timer-driven KEEPALIVE keeps the session up
   (r.cls \in TimerEv /\ HasOut(r, "KEEPALIVE")) => (r.st = r.pst /\ NoClose(r))

(***************************** C12: one connection *************************)
\* edge-triggered: reported on the step that creates the second connection / the leak, not on every later line
C12_One(r) == r.att <= 1 /\ (r.live > 1 => r.plive > 1)
C12_Target(r) == \A k \in 1..Len(r.out) : r.out[k].c = r.tr
C12_NoLeak(r) == r.leak > 0 => r.pleak > 0

(***************************** C13: operator stop **************************)
C13_Stop(r) ==
   r.cls = "STOP" =>
      /\ r.st = "IDLE"
      /\ r.att = 0
      /\ (r.pst = "ESTABLISHED" => (Len(r.out) = 1 /\ r.out[1].type = "NOTIFICATION" /\ r.out[1].code = 6 /\ r.out[1].c = r.ptr))
      /\ (r.pst # "ESTABLISHED" => (r.out = <<>> \/ (Len(r.out) = 1 /\ r.out[1].type = "NOTIFICATION" /\ r.out[1].code = 6)))
      /\ (r.ptrcs = "open" => TrackedClosed(r))
      /\ r.rest.status = 200 /\ r.rest.ok = 1
C13_Silent(r, stopped) == (stopped /\ r.cls \notin {"START", "STOP"}) => (r.out = <<>> /\ r.att = 0)
C13_Start(r, stopped) ==
   r.cls = "START" =>
      IF stopped \/ r.pst = "IDLE" THEN (r.att >= 1 /\ r.st = "CONNECT" /\ r.out = <<>>)
      ELSE Ignored(r)

(***************************** C18: statistics *****************************)
StatOk(r) == (r.tr > 0 /\ r.sS # <<>> /\ r.wS # <<>>) => (r.sS = r.wS /\ r.sR = r.wR)
C18_Stat(mon, r) == mon.statok => StatOk(r)      \* reported on the step that makes counters and wire differ

(***************************** C10: containment ****************************)
C10_NoEscape(r) == r.exc = 0 /\ ~r.hang
C10_OneReport(r) == r.cls \in PeerMsg => NMsgReports(r) <= 1
\* a malformed UPDATE body (any body in a frame of legal UPDATE length) never tears an Established session down
C10_BadUpdate(r) ==
   /\ (r.cls = "UPD_BAD" /\ Live(r) /\ r.pst = "ESTABLISHED") =>
         (r.st = "ESTABLISHED" /\ Quiet(r) /\ NMsgReports(r) = 1 /\ InSeq("on_update_error", r.rep))
   /\ (r.cls = "FUZZ_UPD" /\ Live(r) /\ r.pst = "ESTABLISHED" /\ r.flen >= 23 /\ r.flen <= 4096) =>
         (r.st = "ESTABLISHED" /\ Quiet(r))
\* ... and never changes how the messages after it are decoded: the known-good probe decodes as on a fresh agent
\* the same frame delivered a second time is handled like the first time (nothing learnt from a malformed message changes
\* how later messages are decoded); rptsame is recorded by the harness: same reports, same messages written, same state
C10_Repeat(r) == r.rptsame
C10_Probe(r) == r.cls = "PROBE" => (r.probeok /\ InSeq("update_received", r.rep) /\ r.st = "ESTABLISHED" /\ Quiet(r))
C10_After(r, stopped) ==     \* after any input: still in session, or closed cleanly with the reconnect scheduled
   r.cls \in PeerMsg => (r.st \in Session \/ stopped \/ r.pend > 0)

(***************************** C02: always recovering **********************)
C02_Pending(r, stopped) == (~stopped /\ r.cls # "cfg") => (r.live >= 1 \/ r.pend > 0)

(***************************** C16: REST control surface ********************)
\* r.rq describes the request the harness made: cls = class of the rule ("read": state/statistic/version,
\* "ctl": manual-start/-stop, "send": send/update, send/route-refresh, send/bin_update, "gated": json_to_bin, adj-rib-in/-out,
\* "unknown": a rule of the URL map the specification does not know), valid = well-formed body for that rule,
\* etype = message type a successful send must write, wdn/nln/ats = what the requested UPDATE contains.
NoEffect(r) == r.st = r.pst /\ Quiet(r) /\ r.statsame
\* the request did not reach the endpoint: method not allowed, or the framework's own answer to OPTIONS (no body)
NotServed(r) == r.rest.status = 405 \/ (r.rest.method = "OPTIONS" /\ r.rest.status = 200 /\ r.rest.ok = 0 /\ ~r.rest.hasbin)
C16_Auth(r) ==       \* no valid credentials: 401 (or 405 for a method the rule does not have), nothing revealed, nothing changed
   \* (the framework's automatic answer to OPTIONS - 200 with an Allow header and no body - reveals and changes nothing)
   (r.cls = "REST" /\ r.rest.cred # "good") =>
      ((r.rest.status \in {401, 405} \/ (r.rest.method = "OPTIONS" /\ r.rest.status = 200)) /\ r.rest.ok = 0 /\ ~r.rest.hasbin /\ NoEffect(r))
C16_Method(r) ==     \* a method the rule does not offer changes nothing
   (r.cls = "REST" /\ NotServed(r)) => NoEffect(r)
C16_Gate(r) ==       \* sending (and the other Established-only endpoints) does nothing and reports failure unless Established
   (r.cls = "REST" /\ r.rest.cred = "good" /\ r.rq.cls \in {"send", "gated"} /\ ~NotServed(r) /\ r.pst # "ESTABLISHED") =>
      (r.rest.ok = 2 /\ ~r.rest.hasbin /\ NoEffect(r))
C16_Read(r) ==       \* reading endpoints never change anything
   (r.cls = "REST" /\ r.rq.cls \in {"read", "gated"}) => (r.st = r.pst /\ Quiet(r))
C16_Send(r) ==       \* a send reported successful wrote exactly the requested message, and only it, to the tracked connection
   (r.cls = "REST" /\ r.rq.cls = "send" /\ r.rest.ok = 1) =>
      /\ r.pst = "ESTABLISHED" /\ r.st = "ESTABLISHED" /\ NoClose(r) /\ r.att = 0
      \* (send/bin_update: the octets of the request, whatever they are, are what was written)
      /\ (r.rest.rule = "send/bin_update" => r.binsame)
      /\ (r.rq.etype # "RAW" => (Len(r.out) = 1 /\ r.out[1].c = r.ptr /\ r.out[1].type = r.rq.etype))
      \* a ROUTE-REFRESH goes out with the address family and the reserved octet of the request
      /\ (r.rq.etype = "RR" /\ r.rq.valid /\ r.rq.rr[1] >= 0) => r.out[1].rr = r.rq.rr
      /\ (r.rq.etype = "UPDATE" /\ r.rq.valid) =>
            /\ r.out[1].wdn = r.rq.wdn /\ r.out[1].nln = r.rq.nln
            \* the documented default: LOCAL_PREF 100 on iBGP sessions when the request has attributes but no LOCAL_PREF
            /\ LET addlp == r.rq.ibgp /\ r.rest.rule = "send/update" /\ r.rq.ats # <<>> /\ ~InSeq(5, r.rq.ats) IN
               /\ (addlp => (r.out[1].lp = 100 /\ Len(r.out[1].ats) = Len(r.rq.ats) + 1))
               /\ (~addlp => Len(r.out[1].ats) = Len(r.rq.ats))
               /\ \A k \in 1..Len(r.rq.ats) : InSeq(r.rq.ats[k], r.out[1].ats)
               /\ (InSeq(5, r.rq.ats) => r.out[1].lp = r.rq.lp)          \* a requested LOCAL_PREF goes out as requested
               \* a requested AS_PATH goes out with AS numbers of the width negotiated for this session
               /\ (r.rq.aspl >= 0 => r.out[1].aspl = r.rq.aspl)
C16_Fail(r) ==       \* a send reported as failed wrote nothing
   (r.cls = "REST" /\ r.rq.cls = "send" /\ r.rest.ok # 1) => (r.out = <<>> /\ r.st = r.pst)
C16_ValidSend(r) ==  \* a well-formed send request in Established is carried out
   (r.cls = "REST" /\ r.rq.cls = "send" /\ r.rq.valid /\ r.rest.cred = "good" /\ ~NotServed(r) /\ r.pst = "ESTABLISHED") => r.rest.ok = 1

\* cooperative continuation (the harness marks its start with a COOP line): Established within one idle-hold period plus
\* one connection cycle (1 tick of slack), and Established on every later line
C02_Recovers(mon, r) ==
   (mon.coop0 >= 0 /\ r.cls # "COOP" /\ r.now - mon.coop0 > mon.cfg.idle + 1) => r.st = "ESTABLISHED"

(***************************** C05: OPEN contents **************************)
\* acceptance policy: acc = 1: the injected OPEN must be accepted (version 4, AS = remote AS - the 4-octet value when that
\* capability is present -, hold time not 1 or 2); acc = 2: it must be rejected with OPEN Message Error subcode esub
C05_Accept(r) ==
   (r.acc # 0 /\ Live(r) /\ r.pst = "OPENSENT") =>
      IF r.acc = 1 THEN (r.st = "OPENCONFIRM" /\ Outs(r) = <<<<"KEEPALIVE", 0, 0>>>> /\ NoClose(r))
      ELSE IsErr(r, 2, r.esub)
\* AS numbers of later UPDATEs are read as 4-octet exactly when both sides advertised the capability in this session
\* (the harness encodes the AS_PATH accordingly and compares what the handler got with what it sent)
C05_AsMode(r) == r.cls = "UPD_AS" => (r.aspathok /\ InSeq("update_received", r.rep))
C05_Open(mon, r) ==
   \A k \in 1..Len(r.out) : r.out[k].type = "OPEN" =>
      LET o == r.out[k] IN
      /\ o.wf /\ o.ver = 4 /\ o.hold = mon.cfg.hold
      /\ o.as_hi = mon.cfg.las_hi /\ o.as_lo = mon.cfg.las_lo
      /\ IF mon.cfg.las_hi > 0 THEN (o.my_as = 23456 /\ o.has_as4) ELSE o.my_as = mon.cfg.las_lo
      /\ (o.id_hi # 0 \/ o.id_lo # 0)
      /\ (mon.bgpid = <<>> \/ mon.bgpid = <<o.id_hi, o.id_lo>>)
      /\ \A j \in 1..Len(o.caps) : InSeq(o.caps[j], mon.cfg.caps)
      /\ (mon.opencaps = <<-1>> \/ mon.opencaps = o.caps)      \* the same OPEN in every session: nothing leaks from earlier ones

------------------------------------------------------------------------------
NoSess == [conn |-> 0, sentOpen |-> FALSE, gotOpen |-> FALSE, sentKa |-> FALSE, H |-> 0, start |-> 0, heard |-> 0, kasent |-> 0]
\* stopped: "no" | "yes" (manual stop in force) | "breached" (a violation of C13 was already reported for this stop)
Mon0 == [cfg |-> [hold |-> 0, tnum |-> 1, tden |-> 1, las_hi |-> 0, las_lo |-> 0, caps |-> <<>>, idle |-> 0], stopped |-> "no",
         sess |-> NoSess, bgpid |-> <<>>, statok |-> TRUE, opencaps |-> <<-1>>, coop0 |-> -1, restarted |-> FALSE]

Min(a, b) == IF a < b THEN a ELSE b
\* monitor update after a line (uses observable fields only)
NextSess(mon, r) ==
   LET s0 == mon.sess
       s1 == IF r.cls = "CONN_OK" /\ HasOut(r, "OPEN")
             THEN [NoSess EXCEPT !.conn = r.c, !.sentOpen = TRUE, !.start = r.now] ELSE s0
       s2 == IF r.cls = "OPEN_OK" /\ Live(r) /\ r.pst = "OPENSENT" /\ s1.conn = r.c /\ r.st = "OPENCONFIRM"
             THEN [s1 EXCEPT !.gotOpen = TRUE, !.H = Min(mon.cfg.hold, r.h), !.heard = r.now] ELSE s1
       s3 == IF (\E k \in 1..Len(r.out) : r.out[k].type = "KEEPALIVE" /\ r.out[k].c = s2.conn)
             THEN [s2 EXCEPT !.sentKa = TRUE, !.kasent = r.now] ELSE s2
       s4 == IF Live(r) /\ s3.conn = r.c /\ ((r.cls = "KA" /\ r.pst \in Up) \/ (r.cls \in {"UPD", "UPD_BAD"} /\ r.pst = "ESTABLISHED"))
             THEN [s3 EXCEPT !.heard = r.now] ELSE s3
   IN s4
NextMon(mon, r) ==
   IF r.k = "cfg"
   THEN [Mon0 EXCEPT !.cfg = [hold |-> r.hold, tnum |-> r.tnum, tden |-> r.tden, las_hi |-> r.las_hi, las_lo |-> r.las_lo, caps |-> r.caps, idle |-> r.idle]]
   ELSE [mon EXCEPT !.stopped = IF r.cls = "STOP" THEN "yes" ELSE IF r.cls = "START" THEN "no"
                                 ELSE IF @ = "yes" /\ ~C13_Silent(r, TRUE) THEN "breached" ELSE @,
                    !.statok = StatOk(r),
                    !.restarted = IF r.cls = "STOP" THEN FALSE ELSE IF r.cls = "START" /\ mon.stopped # "no" THEN TRUE ELSE @,
                    !.coop0 = IF r.cls = "COOP" THEN r.now ELSE @,
                    !.sess = NextSess(mon, r),
                    !.opencaps = IF @ = <<-1>> /\ (\E k \in 1..Len(r.out) : r.out[k].type = "OPEN" /\ r.out[k].wf)
                                 THEN r.out[CHOOSE k \in 1..Len(r.out) : r.out[k].type = "OPEN" /\ r.out[k].wf].caps ELSE @,
                    !.bgpid = IF @ = <<>> /\ (\E k \in 1..Len(r.out) : r.out[k].type = "OPEN" /\ r.out[k].wf)
                              THEN LET k == CHOOSE k \in 1..Len(r.out) : r.out[k].type = "OPEN" /\ r.out[k].wf
                                   IN <<r.out[k].id_hi, r.out[k].id_lo>>
                              ELSE @]

Check(mon, r) ==
   LET stp == mon.stopped = "yes" IN
   /\ Chk("C01", r, "C01.table", Single(r) => C01_Table(r, stp), <<r.st, OutTypes(r)>>)
   /\ Chk("C01e", r, "C01.estab", C01_Estab(mon, r), <<>>)
   /\ Chk("C03", r, "C03.tick", C03_Tick(mon, r), <<>>)
   /\ Chk("C03", r, "C03.expire", C03_Expire(mon, r), <<>>)
   /\ Chk("C03", r, "C03.nodrop", C03_NoDrop(mon, r), <<>>)
   /\ Chk("C03", r, "C03.expired", C03_Expired(mon, r), OutTypes(r))
   /\ Chk("C03", r, "C03.holdzero", C03_HoldZero(mon, r), <<>>)
   /\ Chk("C03", r, "C03.kaontime", C03_KaOnTime(mon, r), <<>>)
   /\ Chk("C12", r, "C12.one", C12_One(r), <<r.plive, r.live>>)
   /\ Chk("C12", r, "C12.target", C12_Target(r), <<>>)
   /\ Chk("C12", r, "C12.noleak", C12_NoLeak(r), <<>>)
   /\ Chk("C13", r, "C13.stop", C13_Stop(r), <<>>)
   /\ Chk("C13", r, "C13.silent", C13_Silent(r, stp), <<>>)
   /\ Chk("C13", r, "C13.start", C13_Start(r, stp), <<>>)
   \* "automatic recovery is in force again": once restarted by the operator, a reconnection source exists after every step
   /\ Chk("C13", r, "C13.recovery", (mon.restarted /\ r.cls # "STOP") => C02_Pending(r, FALSE), <<r.live, r.pend>>)
   /\ Chk("C18", r, "C18.stat", C18_Stat(mon, r), <<r.sS, r.wS, r.sR, r.wR>>)
   /\ Chk("C10", r, "C10.noescape", C10_NoEscape(r), <<>>)
   /\ Chk("C10", r, "C10.onereport", C10_OneReport(r), r.rep)
   /\ Chk("C10", r, "C10.badupdate", C10_BadUpdate(r), r.rep)
   /\ Chk("C10", r, "C10.probe", C10_Probe(r), <<>>)
   /\ Chk("C10", r, "C10.repeat", C10_Repeat(r), r.rep)
   /\ Chk("C05", r, "C05.accept", C05_Accept(r), <<r.acc, r.esub, OutTypes(r)>>)
   /\ Chk("C05", r, "C05.asmode", C05_AsMode(r), r.rep)
   /\ Chk("C10", r, "C10.after", C10_After(r, stp \/ r.cls = "STOP"), <<>>)
   /\ Chk("C02", r, "C02.pending", C02_Pending(r, stp \/ r.cls = "STOP"), <<>>)
   /\ Chk("C02", r, "C02.recovers", C02_Recovers(mon, r), <<mon.coop0, r.now>>)
   /\ Chk("C02", r, "C02.sameopen", mon.coop0 >= 0 => C05_Open(mon, r), <<>>)
   /\ Chk("C05", r, "C05.open", C05_Open(mon, r), <<>>)
   /\ Chk("C16", r, "C16.auth", C16_Auth(r), <<r.rest.rule, r.rest.method, r.rest.cred, r.rest.status>>)
   /\ Chk("C16", r, "C16.method", C16_Method(r), <<r.rest.rule, r.rest.method>>)
   /\ Chk("C16", r, "C16.gate", C16_Gate(r), <<r.rest.rule, r.rest.method, r.rest.status, r.rest.ok>>)
   /\ Chk("C16", r, "C16.read", C16_Read(r), <<r.rest.rule, r.rest.method>>)
   /\ Chk("C16", r, "C16.send", C16_Send(r), <<r.rest.rule, OutTypes(r)>>)
   /\ Chk("C16", r, "C16.fail", C16_Fail(r), <<r.rest.rule, OutTypes(r)>>)
   /\ Chk("C16", r, "C16.validsend", C16_ValidSend(r), <<r.rest.rule, r.rest.status, r.rest.ok>>)
=============================================================================
