---------------------------- MODULE TraceFraming ----------------------------
(***************************************************************************)
(* C04 on recorded executions: every line is what the REAL BGP protocol    *)
(* object had reported, written and closed after one more chunk of a       *)
(* stream was handed to dataReceived; the reference deframer of            *)
(* Framing.tla is evaluated by TLC on the delivered prefix and must admit  *)
(* the observation.  Line kinds: {"k":"stream","bytes":[...]} starts a     *)
(* trace; {"k":"chunk","avail","ext","nots","closed","work","n","payeq",   *)
(* "exc"} follows every dataReceived call.                                 *)
(***************************************************************************)
EXTENDS FramingRef, IOUtils

Tr == ndJsonDeserialize(IOEnv.TRACE_FILE)
VARIABLES l, bytes
tvars == <<l, bytes>>

WA == 600      \* lines of yabgp executed per dataReceived call: constant part
WB == 40       \* ... and per octet that can be in the buffer
MaxMsg == 4096

Rj(r, clause, extra) == PrintT("@R " \o ToJson([tid |-> r.tid, i |-> r.i, clause |-> clause, pst |-> r.shape, cls |-> r.cut, extra |-> extra]))
Ck(r, clause, cond, extra) == IF cond THEN TRUE ELSE Rj(r, clause, extra)
MinN(a, b) == IF a < b THEN a ELSE b

CheckLine(r) ==
   LET prefix == SubSeq(bytes, 1, r.avail)
       obs == Out(r.ext, IF r.nots = <<>> THEN <<>> ELSE r.nots[1], r.closed)
   IN /\ Ck(r, "C04.ref", obs \in Ref(prefix), <<r.avail, obs>>)
      /\ Ck(r, "C04.onenotif", Len(r.nots) <= 1, r.nots)
      /\ Ck(r, "C04.payload", \A k \in 1..Len(r.payeq) : r.payeq[k], <<>>)
      /\ Ck(r, "C04.work", ~r.over /\ r.work <= WA + WB * (r.n + MinN(r.avail, MaxMsg + 19)), <<r.work, r.n>>)
      /\ Ck(r, "C04.noescape", r.exc = 0, <<>>)

\* a long run of well-formed messages (n UPDATEs and a KEEPALIVE, built by the harness): every one reported once and in order
CheckLong(r) ==
   /\ Ck(r, "C04.long", r.reported = r.n /\ r.ordered /\ r.ka /\ r.others = 0 /\ ~r.closed, <<r.n, r.reported, r.ordered, r.ka>>)
   /\ Ck(r, "C04.onenotif", r.nots = <<>>, r.nots)
   /\ Ck(r, "C04.work", ~r.over, <<>>)
   /\ Ck(r, "C04.noescape", r.exc = 0, <<>>)

TInit == l = 1 /\ bytes = <<>>
TNext == /\ l <= Len(Tr)
         /\ LET r == Tr[l] IN
            IF r.k = "stream" THEN bytes' = r.bytes
            ELSE IF r.k = "long" THEN CheckLong(r) /\ UNCHANGED bytes
            ELSE CheckLine(r) /\ UNCHANGED bytes
         /\ l' = l + 1
AllConsumed == TLCGet("stats").diameter - 1 = Len(Tr)
=============================================================================
