----------------------------- MODULE WireCompose -----------------------------
(***************************************************************************)
(* C15 on the specification itself: the list formats of the wire modules   *)
(* are compositional - splitting the concatenation of two well-formed      *)
(* lists gives the concatenation of the separate splittings - checked by   *)
(* TLC for every pair of elements of the pools (prefix lists, attribute    *)
(* TLVs, generic TLVs of both width combinations).                         *)
(***************************************************************************)
EXTENDS WireMp, WireOpen, TLCExt

VARIABLE pair
P4E == {EncPrefix(p) : p \in AllLen4}
P6E == {EncPrefix(p) : p \in {Pfx6(l, A6a) : l \in {0, 1, 7, 8, 9, 63, 64, 65, 127, 128}}}
AtE == {EncAttr(a, TRUE, e) : a \in {x \in AttrValues(TRUE) : x[1] \in {1, 3, 4, 6, 8, 9, 32}}, e \in BOOLEAN}
CapE == {EncCap(CapKinds(<<0, 65002>>)[i]) : i \in 1..11}
Init == pair \in ({"p4"} \X P4E \X P4E) \cup ({"p6"} \X P6E \X P6E) \cup ({"attr"} \X AtE \X AtE) \cup ({"cap"} \X CapE \X CapE)
Next == FALSE /\ UNCHANGED pair
Compositional ==
   LET k == pair[1]  a == pair[2]  b == pair[3] IN
   CASE k \in {"p4", "p6"} -> SplitPrefixes(a \o b) = SplitPrefixes(a) \o SplitPrefixes(b) /\ WfPrefixList(a \o b, 128)
     [] k = "attr" -> SplitAttrs(a \o b) = SplitAttrs(a) \o SplitAttrs(b)
     [] k = "cap" -> SplitTlvs(a \o b, 1, 1) = SplitTlvs(a, 1, 1) \o SplitTlvs(b, 1, 1) /\ WfTlvs(a \o b, 1, 1)
=============================================================================
