---------------------------- MODULE FramingRef ----------------------------
(***************************************************************************)
(* Reference RFC 4271 deframer (sections 4.1 and 6.1) used for C04, both   *)
(* as the invariant of the model Framing.tla and as the acceptance         *)
(* predicate for recorded executions in TraceFraming.tla.                  *)
(***************************************************************************)
EXTENDS Naturals, Sequences, FiniteSets, TLC, TLCExt, Json

Marker == [i \in 1..16 |-> 255]
U16(n) == <<n \div 256, n % 256>>
Frame(len, typ, body) == Marker \o U16(len) \o <<typ>> \o body
Zeros(n) == [i \in 1..n |-> 0]

(***************************** reference deframer **************************)
Known == {1, 2, 3, 4, 5, 128}
Closing == {1, 3}     \* in Established an OPEN is an FSM error and a NOTIFICATION ends the session: nothing after it counts
Out(msgs, notif, closed) == [msgs |-> msgs, notif |-> notif, closed |-> closed]
\* outcomes RFC 4271 allows for the octets `b` (a set: a type-specific length violation of UPDATE, NOTIFICATION or
\* ROUTE-REFRESH may be answered (1,2) or the frame may be dropped; the property's reference only fixes 19..4096)
RECURSIVE RefSet(_, _)
RefSet(b, msgs) ==
   IF Len(b) < 19 THEN {Out(msgs, <<>>, FALSE)}
   ELSE IF SubSeq(b, 1, 16) # Marker THEN {Out(msgs, <<1, 1>>, TRUE)}
   ELSE LET len == b[17] * 256 + b[18]  typ == b[19] IN
        IF len < 19 \/ len > 4096 THEN {Out(msgs, <<1, 2>>, TRUE)}
        ELSE IF Len(b) < len THEN {Out(msgs, <<>>, FALSE)}
        ELSE IF typ \notin Known THEN {Out(msgs, <<1, 3>>, TRUE)}
        ELSE LET rest == SubSeq(b, len + 1, Len(b))  blen == len - 19 IN
             CASE typ = 4 -> IF blen = 0 THEN RefSet(rest, Append(msgs, "K")) ELSE {Out(msgs, <<1, 2>>, TRUE), Out(Append(msgs, "K"), <<1, 2>>, TRUE)}
               \* an OPEN in Established draws the FSM error; a frame of type OPEN whose body is not even shaped like an OPEN
               \* (version octet, optional parameter length) may instead draw an OPEN Message Error (RFC 4271 6.2) unreported
               [] typ = 1 -> IF blen < 10 THEN {Out(msgs, <<1, 2>>, TRUE)}
                             ELSE {Out(Append(msgs, "O"), <<5, 0>>, TRUE)}
                                  \cup (IF b[20] # 4 \/ b[29] # blen - 10 THEN {Out(msgs, <<2, sc>>, TRUE) : sc \in 0..11} ELSE {})
               [] typ = 3 -> IF blen < 2 THEN {Out(msgs, <<1, 2>>, TRUE)} \cup RefSet(rest, msgs) ELSE {Out(Append(msgs, "N"), <<>>, TRUE)}
               \* an UPDATE is reported (as decoded, or as malformed); when its two length fields do not fit the body there may
               \* be nothing to report (C11 / C10 speak about that case: no result object, at most one report)
               [] typ = 2 -> IF blen < 4 THEN {Out(msgs, <<1, 2>>, TRUE)} \cup RefSet(rest, msgs)
                             ELSE LET wl == b[20] * 256 + b[21]
                                      fits == wl + 4 <= blen /\ wl + 4 + b[20 + wl + 2] * 256 + b[20 + wl + 3] <= blen
                                  IN RefSet(rest, Append(msgs, "U")) \cup (IF fits THEN {} ELSE RefSet(rest, msgs))
               [] OTHER -> IF blen # 4 THEN {Out(msgs, <<1, 2>>, TRUE)} \cup RefSet(rest, msgs) ELSE RefSet(rest, Append(msgs, "R"))
Ref(b) == RefSet(b, <<>>)

=============================================================================
