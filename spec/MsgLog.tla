------------------------------- MODULE MsgLog -------------------------------
(***************************************************************************)
(* Layer I + P for C20: yabgp/handler/default_handler.py - the on-disk     *)
(* message log across events, rotations, crashes at any point of a write   *)
(* and restarts.                                                           *)
(*                                                                         *)
(* disk : sequence of files in the order os.listdir().sort() gives them;   *)
(*        a file is a sequence of lines, a line a sequence of pieces       *)
(*        [seq, full] (one complete record, or the torn prefix of one)     *)
(*        plus `nl` = terminated by a newline.  A healthy line is exactly  *)
(*        one full piece with nl.                                          *)
(* mem  : the handler object: running?, next sequence number.              *)
(*                                                                         *)
(* Crash(cut): the process dies while an event is being written; what      *)
(* reaches the disk is a prefix of the record: nothing, a torn part,       *)
(* everything but the newline, or everything.                              *)
(* Audit is the property (used on the model here and on the directory      *)
(* contents of the real handler in TraceLog.tla).                          *)
(***************************************************************************)
EXTENDS MsgLogRef

CONSTANTS MAXEV,      \* events per behaviour (CONSTRAINT)
          MAXROT,     \* rotations per behaviour
          MAXCRASH,   \* crashes per behaviour
          KINDS,      \* event kinds: handler callbacks, "plain" payloads and "odd" (not JSON-serialisable) ones
          FIXED       \* TRUE: behaviour after the fix: commits; FALSE: the original behaviour (documents the defects)

VARIABLES disk, mem, hist, ev
vars == <<disk, mem, hist, ev>>
E(k, kind, cut) == [k |-> k, kind |-> kind, cut |-> cut]
\* hist: bookkeeping for the bounds and the audit: events, rotations, crashes so far; refused = a restart gave up
Cuts == {"nothing", "torn", "nonl", "all"}

LastFile == Len(disk)
AppendToLast(d, ln) == [d EXCEPT ![Len(d)] = Append(@, ln)]
\* append octets to the last file: they continue its last line when that line has no newline yet
Put(d, ps, nl) ==
   LET f == d[Len(d)] IN
   IF f # <<>> /\ ~f[Len(f)].nl
   THEN [d EXCEPT ![Len(d)][Len(f)] = Line(f[Len(f)].ps \o ps, nl)]
   ELSE AppendToLast(d, Line(ps, nl))

(***************************** the handler *********************************)
\* DefaultHandler.write_msg for one event; odd = payload json cannot serialise
WriteMsg(d, n, odd) ==
   IF odd /\ ~FIXED THEN Put(d, <<Piece(n, FALSE)>>, TRUE)     \* partial JSON text, newline, sequence number consumed
   ELSE Put(d, <<Piece(n, TRUE)>>, TRUE)

Init == /\ disk = <<>> /\ mem = [running |-> FALSE, seq |-> 0]
        /\ hist = [ev |-> 0, rot |-> 0, crash |-> 0, refused |-> FALSE, started |-> FALSE]
        /\ ev = E("init", "", "")

FullSeqs(lines) == LET idx == {i \in 1..Len(lines) : \E k \in 1..Len(lines[i].ps) : lines[i].ps[k].full} IN idx
LastCompleteSeq(d) ==      \* FIXED: the last line, in any file, that is one complete record
   LET fl == Flat(d)
       ok == {i \in 1..Len(fl) : Len(fl[i].ps) = 1 /\ fl[i].ps[1].full}
   IN IF ok = {} THEN 0 ELSE fl[CHOOSE i \in ok : \A j \in ok : j <= i].ps[1].seq
\* original get_last_seq_and_file: last line of the newest file only; -1 = sys.exit()
OrigLastSeq(d) ==
   LET f == d[Len(d)] IN
   IF f = <<>> THEN 0
   ELSE LET ln == f[Len(f)] IN
        IF Len(ln.ps) = 1 /\ ln.ps[1].full THEN ln.ps[1].seq ELSE -1

\* DefaultHandler.init / init_msg_file
Restart ==
   /\ ~mem.running /\ ~hist.refused /\ ev' = E("restart", "", "")
   /\ IF disk = <<>>
      THEN /\ disk' = <<<<>>>> /\ mem' = [running |-> TRUE, seq |-> 1] /\ hist' = [hist EXCEPT !.started = TRUE]
      ELSE IF FIXED
           THEN LET f == disk[Len(disk)]
                    d1 == IF f # <<>> /\ ~f[Len(f)].nl THEN [disk EXCEPT ![Len(disk)][Len(f)].nl = TRUE] ELSE disk  \* end a torn last line
                IN /\ disk' = d1 /\ mem' = [running |-> TRUE, seq |-> LastCompleteSeq(disk) + 1] /\ hist' = [hist EXCEPT !.started = TRUE]
           ELSE IF OrigLastSeq(disk) = -1
                THEN /\ hist' = [hist EXCEPT !.refused = TRUE] /\ UNCHANGED <<disk, mem>>
                ELSE /\ mem' = [running |-> TRUE, seq |-> OrigLastSeq(disk) + 1] /\ UNCHANGED disk /\ hist' = [hist EXCEPT !.started = TRUE]

\* one handler callback; an UPDATE may be followed by check_file_size opening a new, empty current file
\* (rot chosen nondeterministically: sound for every size threshold)
Event(kind, rot) ==
   /\ mem.running /\ hist.ev < MAXEV
   /\ (rot => (kind = "update" /\ hist.rot < MAXROT))
   /\ LET d1 == WriteMsg(disk, mem.seq, kind = "odd") IN disk' = IF rot THEN Append(d1, <<>>) ELSE d1
   /\ mem' = [mem EXCEPT !.seq = @ + 1]
   /\ hist' = [hist EXCEPT !.ev = @ + 1, !.rot = IF rot THEN @ + 1 ELSE @] /\ ev' = E("event", kind, IF rot THEN "rotate" ELSE "")
\* the process dies during the write of one more event
Crash(cut) ==
   /\ mem.running /\ hist.crash < MAXCRASH /\ hist.ev < MAXEV
   /\ disk' = CASE cut = "nothing" -> disk
                [] cut = "torn" -> Put(disk, <<Piece(mem.seq, FALSE)>>, FALSE)
                [] cut = "nonl" -> Put(disk, <<Piece(mem.seq, TRUE)>>, FALSE)
                [] cut = "all" -> Put(disk, <<Piece(mem.seq, TRUE)>>, TRUE)
   /\ mem' = [running |-> FALSE, seq |-> 0]
   /\ hist' = [hist EXCEPT !.crash = @ + 1, !.ev = @ + 1] /\ ev' = E("crash", "", cut)
\* orderly stop of the process between events
Stop == /\ mem.running /\ hist.crash < MAXCRASH /\ mem' = [running |-> FALSE, seq |-> 0]
        /\ hist' = [hist EXCEPT !.crash = @ + 1] /\ UNCHANGED disk /\ ev' = E("stop", "", "")

Next == Restart \/ Stop \/ (\E k \in KINDS, r \in BOOLEAN : Event(k, r)) \/ (\E c \in Cuts : Crash(c))
Spec == Init /\ [][Next]_vars

(***************************** the property ********************************)
C20_Audit == Audit(disk, mem.running)
C20_NoRefusal == ~hist.refused
C20_SeqInMem == mem.running => mem.seq >= LastCompleteSeq(disk) + 1

Bound == hist.ev <= MAXEV
Report(c) == PrintT("@V " \o ToJson([clause |-> c, disk |-> disk, mem |-> mem]))
Inv == /\ (IF C20_Audit THEN TRUE ELSE Report("C20.audit"))
       /\ (IF C20_NoRefusal THEN TRUE ELSE Report("C20.norefusal"))
       /\ (IF C20_SeqInMem THEN TRUE ELSE Report("C20.seqinmem"))

\* behaviours for the replay (DESIGN.md 2.4): the state graph, as for Session.tla
View == <<disk, mem, hist>>
Id(v) == <<TLCFP(v), TLCFP(<<v, "salt">>)>>
EmitEdge == PrintT("@E " \o ToJson(<<Id(View), ev', [disk |-> disk', running |-> mem'.running, seq |-> mem'.seq, refused |-> hist'.refused], <<>>, Id(<<disk', mem', hist'>>)>>))
DumpState == PrintT("@S " \o ToJson(<<Id(View), [booted |-> hist.started \/ disk # <<>> \/ hist.crash > 0, disk |-> disk, running |-> mem.running, refused |-> hist.refused]>>))
=============================================================================
