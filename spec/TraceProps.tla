----------------------------- MODULE TraceProps -----------------------------
(***************************************************************************)
(* Layer P on recorded executions (code -> spec, DESIGN.md 2.2/2.3).       *)
(*                                                                         *)
(* Reads an ndjson file of trace lines recorded from the REAL yabgp agent  *)
(* (harness/replay_session.py; format in DESIGN.md Appendix B) and         *)
(* evaluates the property clauses of Props.tla on every line.  Only        *)
(* externally observable fields are used: event injected, reported state   *)
(* string, bytes written per connection, connects/closes, handler          *)
(* callbacks, REST answers, virtual time.  One TLC run gives a total       *)
(* verdict for every trace in the batch (trace id = field tid).            *)
(***************************************************************************)
EXTENDS Props, IOUtils

Tr == ndJsonDeserialize(IOEnv.TRACE_FILE)
VARIABLES l, mon
vars == <<l, mon>>

Init == l = 1 /\ mon = Mon0
Next == /\ l <= Len(Tr)
        /\ LET r == Tr[l] IN
           /\ (IF r.k = "cfg" THEN TRUE ELSE Check(mon, r))
           /\ mon' = NextMon(mon, r)
        /\ l' = l + 1
Spec == Init /\ [][Next]_vars
\* every line of every trace was consumed (one state per line plus the initial state)
AllConsumed == TLCGet("stats").diameter - 1 = Len(Tr)
=============================================================================
