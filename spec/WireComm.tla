------------------------------ MODULE WireComm ------------------------------
(***************************************************************************)
(* Layer W: the community attributes (RFC 1997, 4360, 5575/8955, 7153,     *)
(* 7432, 9012, 8092) as octets, for C17: every extended-community kind the *)
(* decoder renders as text, every well-known community, large communities. *)
(* An extended community is its 8 octets; Ext* build them from fields.     *)
(***************************************************************************)
EXTENDS WireCore

As2Local4(t, s, as, an) == <<t, s>> \o U16(as) \o U32hl(an)        \* 2-octet AS : 4-octet number
Ip4Local2(t, s, ip, an) == <<t, s>> \o ip \o U16(an)               \* IPv4 : 2-octet number
As4Local2(t, s, as, an) == <<t, s>> \o U32hl(as) \o U16(an)        \* 4-octet AS : 2-octet number
RouteTarget0(as, an) == As2Local4(0, 2, as, an)
RouteTarget1(ip, an) == Ip4Local2(1, 2, ip, an)
RouteTarget2(as, an) == As4Local2(2, 2, as, an)
RouteOrigin0(as, an) == As2Local4(0, 3, as, an)
RouteOrigin1(ip, an) == Ip4Local2(1, 3, ip, an)
RouteOrigin2(as, an) == As4Local2(2, 3, as, an)
Color(flags, c) == <<3, 11>> \o U16(flags) \o U32hl(c)             \* RFC 9012 4.3
Encapsulation(tt) == <<3, 12, 0, 0, 0, 0>> \o U16(tt)              \* RFC 9012 4.1
RedirectVrf(as, an) == As2Local4(128, 8, as, an)                   \* RFC 8955 7.4
RedirectNexthop(ip, copy) == <<8, 0>> \o ip \o U16(copy)           \* draft-simpson-idr-flowspec-redirect
TrafficRate(as, f32) == <<128, 6>> \o U16(as) \o f32               \* RFC 8955 7.1, f32 = IEEE 754 single, 4 octets
TrafficAction(s, t) == <<128, 7, 0, 0, 0, 0, 0, 2 * s + t>>        \* RFC 8955 7.3: bit 46 sample, bit 47 terminal
TrafficMarking(dscp) == <<128, 9, 0, 0, 0, 0, 0, dscp>>            \* RFC 8955 7.5
LinkBandwidth(as, bw) == <<64, 4>> \o U16(as) \o bw                \* draft-ietf-idr-link-bandwidth (4 octets)
\* RFC 7432 7.5: the label is the high-order 20 bits of the 3-octet field; the low-order 4 bits are not specified there and
\* implementations fill them like an MPLS label stack entry (yabgp sets the bottom-of-stack bit): both are RFC encodings
EsiLabelS(flags, label, low) == <<6, 1, flags, 0, 0>> \o U24(label * 16 + low)
EsiLabel(flags, label) == EsiLabelS(flags, label, 0)
\* two extended communities encode the same value (identical octets, except for the unspecified ESI-label bits)
SameExt1(x, y) ==
   IF Len(x) = 8 /\ Len(y) = 8 /\ x[1] = 6 /\ x[2] = 1 THEN SubSeq(x, 1, 7) = SubSeq(y, 1, 7) /\ x[8] \div 16 = y[8] \div 16 ELSE x = y
\* the same for a list of extended communities (8 octets each), element by element
SameExt(x, y) ==
   IF Len(x) = Len(y) /\ Len(x) % 8 = 0 /\ Len(x) > 8
   THEN \A i \in 0..(Len(x) \div 8 - 1) : SameExt1(SubSeq(x, 8 * i + 1, 8 * i + 8), SubSeq(y, 8 * i + 1, 8 * i + 8))
   ELSE SameExt1(x, y)
MacMobility(flags, seq) == <<6, 0, flags, 0>> \o U32hl(seq)        \* RFC 7432 7.7
EsImport(mac) == <<6, 2>> \o mac                                   \* RFC 7432 7.6
RouterMac(mac) == <<6, 3>> \o mac                                  \* RFC 9135

U16Pool == {0, 1, 255, 256, 32768, 65535}
U32P == {<<0, 0>>, <<0, 1>>, <<0, 65535>>, <<1, 0>>, <<32768, 0>>, <<65535, 65535>>}
IpPool == {<<0, 0, 0, 0>>, <<10, 1, 2, 3>>, <<255, 255, 255, 255>>}
As4P == {<<1, 0>>, <<1, 4464>>, <<65535, 65535>>}              \* AS numbers that need four octets
MacPool == {<<0, 0, 0, 0, 0, 0>>, <<0, 17, 34, 51, 68, 85>>, <<255, 255, 255, 255, 255, 255>>, <<170, 187, 204, 221, 238, 1>>}
\* integral IEEE single values with their octets: 0, 1, 1000, 2^24, 2^31
F32Pool == {<<0, 0, 0, 0>>, <<63, 128, 0, 0>>, <<68, 122, 0, 0>>, <<75, 128, 0, 0>>, <<79, 0, 0, 0>>}
Named(n, o) == [name |-> n, o |-> o]
ExtPool(lazy) ==
   {Named("route-target", RouteTarget0(a, n)) : a \in U16Pool, n \in U32P}
   \cup {Named("route-target", RouteTarget1(i, n)) : i \in IpPool, n \in U16Pool}
   \cup {Named("route-target", RouteTarget2(a, n)) : a \in As4P, n \in U16Pool}
   \cup {Named("route-origin", RouteOrigin0(a, n)) : a \in U16Pool, n \in U32P}
   \cup {Named("route-origin", RouteOrigin1(i, n)) : i \in IpPool, n \in U16Pool}
   \cup {Named("route-origin", RouteOrigin2(a, n)) : a \in As4P, n \in U16Pool}
   \cup {Named("color", Color(f, c)) : f \in {0, 16384, 32768, 49152}, c \in U32P}
   \cup {Named("encapsulation", Encapsulation(t)) : t \in U16Pool \cup {8, 15}}
   \cup {Named("redirect-vrf", RedirectVrf(a, n)) : a \in U16Pool, n \in U32P}
   \cup {Named("redirect-nexthop", RedirectNexthop(i, c)) : i \in IpPool, c \in {0, 1}}
   \cup {Named("traffic-rate", TrafficRate(a, f)) : a \in U16Pool, f \in F32Pool}
   \cup {Named("traffic-action", TrafficAction(s, t)) : s, t \in {0, 1}}
   \cup {Named("traffic-marking", TrafficMarking(d)) : d \in {0, 1, 46, 63}}
   \cup {Named("dmzlink-bw", LinkBandwidth(a, b)) : a \in U16Pool, b \in F32Pool \cup {<<0, 0, 0, 1>>, <<255, 255, 255, 255>>}}
   \cup {Named("esi-label", EsiLabelS(f, l, low)) : f \in {0, 1}, l \in {0, 1, 16, 1048575}, low \in {0, 1}}
   \cup {Named("mac-mobility", MacMobility(f, s)) : f \in {0, 1}, s \in U32P}
   \cup {Named("es-import", EsImport(m)) : m \in MacPool}
   \cup {Named("router-mac", RouterMac(m)) : m \in MacPool}
\* raw pool: every (type, subtype) the decoder renders x arbitrary value octets (reserved fields not zero, flag bits the
\* builders above never set).  Whatever text the decoder renders for them must be accepted back and render the same text
\* again; which octets an RFC encoder would produce is not defined for all of them, so the octet clause does not apply.
RawKinds == {<<0, 2>>, <<1, 2>>, <<2, 2>>, <<0, 3>>, <<1, 3>>, <<2, 3>>, <<3, 11>>, <<3, 12>>, <<128, 8>>, <<8, 0>>, <<128, 6>>, <<128, 7>>, <<128, 9>>,
             <<64, 4>>, <<6, 1>>, <<6, 0>>, <<6, 2>>, <<6, 3>>}
RawVals == {<<0, 0, 0, 0, 0, 0>>, <<255, 255, 255, 255, 255, 255>>, <<0, 0, 0, 1, 0, 0>>, <<0, 1, 0, 0, 0, 0>>, <<128, 0, 0, 0, 0, 0>>, <<0, 0, 128, 0, 0, 0>>,
            <<1, 2, 3, 4, 5, 6>>, <<0, 0, 255, 255, 0, 0>>, <<0, 0, 0, 0, 1, 0>>, <<0, 0, 0, 0, 0, 255>>}
\* ... and a grid over the type / sub-type octets around the ones the decoder knows (the other formats of a known sub-type -
\* 2-octet AS, IPv4, 4-octet AS; transitive and not - and the neighbours): whatever text comes out must be accepted back
RawGrid == {<<t, st>> : t \in {0, 1, 2, 3, 6, 8, 64, 65, 66, 67, 128, 129, 130, 131, 136, 144}, st \in 0..13 \cup {128, 255}}
RawPool(lazy) == {Named("raw", k \o v) : k \in RawKinds, v \in RawVals}
                 \cup {Named("raw", k \o v) : k \in RawGrid, v \in {<<0, 0, 0, 0, 0, 0>>, <<10, 1, 2, 3, 0, 5>>, <<0, 1, 17, 112, 0, 5>>, <<255, 255, 255, 255, 255, 255>>}}
\* several extended communities of one kind, with different field values, in one attribute (both orders)
KindPairs ==
   {<<RouteTarget0(1, <<0, 1>>), RouteTarget0(65535, <<65535, 65535>>)>>, <<RouteTarget1(<<10, 1, 2, 3>>, 1), RouteTarget2(<<1, 0>>, 65535)>>,
    <<RouteOrigin0(1, <<0, 1>>), RouteOrigin2(<<1, 4464>>, 7)>>, <<Color(0, <<0, 1>>), Color(49152, <<65535, 65535>>)>>,
    <<Encapsulation(8), Encapsulation(15)>>, <<RedirectVrf(1, <<0, 1>>), RedirectVrf(65535, <<1, 0>>)>>,
    <<RedirectNexthop(<<10, 1, 2, 3>>, 0), RedirectNexthop(<<255, 255, 255, 255>>, 1)>>,
    <<TrafficRate(0, <<0, 0, 0, 0>>), TrafficRate(65535, <<68, 122, 0, 0>>)>>,
    <<TrafficAction(1, 0), TrafficAction(0, 1)>>, <<TrafficAction(0, 0), TrafficAction(1, 1)>>,
    <<TrafficMarking(0), TrafficMarking(63)>>, <<LinkBandwidth(1, <<63, 128, 0, 0>>), LinkBandwidth(65535, <<79, 0, 0, 0>>)>>,
    <<EsiLabelS(0, 16, 1), EsiLabelS(1, 1048575, 1)>>, <<MacMobility(0, <<0, 1>>), MacMobility(1, <<65535, 65535>>)>>,
    <<EsImport(<<0, 17, 34, 51, 68, 85>>), EsImport(<<255, 255, 255, 255, 255, 255>>)>>,
    <<RouterMac(<<0, 17, 34, 51, 68, 85>>), RouterMac(<<170, 187, 204, 221, 238, 1>>)>>}
MultiPool == {Named("multi", x) : x \in {RouteTarget0(1, <<0, 1>>) \o RouteTarget2(<<1, 4464>>, 7), RouteTarget2(<<1, 4464>>, 7) \o RouteTarget0(1, <<0, 1>>),
                                         RouteOrigin0(65000, <<0, 1>>) \o RouteOrigin2(<<1, 4464>>, 2), RouteOrigin2(<<1, 4464>>, 2) \o RouteOrigin0(65000, <<0, 1>>),
                                         RouteTarget1(<<10, 1, 2, 3>>, 1) \o RouteTarget0(65535, <<0, 1>>) \o RouteTarget2(<<1, 0>>, 1)}}
             \cup {Named("multi", p[1] \o p[2]) : p \in KindPairs} \cup {Named("multi", p[2] \o p[1]) : p \in KindPairs}
             \cup {Named("multi", p[1] \o q[2] \o p[2]) : p, q \in {x \in KindPairs : x[1][1] \in {128, 0}}}
\* standard communities: every well-known value the decoder names, their neighbours, and boundary values
StdPool(lazy) == {Named("community", U32hl(<<65535, x>>)) : x \in {0, 1, 2, 3, 4, 5, 6, 665, 666, 667, 65280, 65281, 65282, 65283, 65284, 65285, 65535}}
           \cup {Named("community", U32hl(<<a, b>>)) : a \in {0, 1, 65000, 65534}, b \in {0, 1, 65535}}
\* lists of three different large communities over a small alphabet of field values: octet windows of two neighbours can
\* coincide with a third value
LargeAlpha == {<<<<0, 0>>, <<0, 0>>, <<0, 1>>>>, <<<<0, 0>>, <<0, 0>>, <<0, 0>>>>, <<<<0, 1>>, <<0, 0>>, <<0, 0>>>>, <<<<0, 0>>, <<0, 256>>, <<0, 0>>>>,
               <<<<0, 65001>>, <<0, 100>>, <<0, 200>>>>, <<<<0, 100>>, <<0, 200>>, <<0, 65002>>>>, <<<<0, 65002>>, <<0, 100>>, <<0, 200>>>>}
LargeOct(v) == U32hl(v[1]) \o U32hl(v[2]) \o U32hl(v[3])
LargeMulti == {Named("large-multi", LargeOct(a) \o LargeOct(b) \o LargeOct(c)) : a, b, c \in LargeAlpha}
LargePool(lazy) == {Named("large-community", U32hl(a) \o U32hl(b) \o U32hl(c)) : a, b, c \in {<<0, 0>>, <<0, 1>>, <<32768, 0>>, <<65535, 65535>>}}
=============================================================================
