----------------------------- MODULE WireEncaps -----------------------------
(***************************************************************************)
(* Layer W: the construct-only families of C08.  yabgp has encoders but no *)
(* (or only partial) decoders for them, so there is no round trip to check; *)
(* what the property demands is structural validity of what is built:      *)
(*   - Tunnel Encapsulation attribute (23) carrying an SR Policy (tunnel    *)
(*     type 15): RFC 9012 section 2 for the TLV / sub-TLV framing (sub-TLV  *)
(*     types >= 128 have a 2-octet length), RFC 9256 / draft-ietf-idr-sr-   *)
(*     policy-safi section 2.4 for the sub-TLVs (both the "old" code points *)
(*     6 / 7 and the assigned ones 12 / 13)                                 *)
(*   - PMSI Tunnel attribute (22), RFC 6514 section 5                       *)
(*   - SR Policy NLRI (SAFI 73): length, distinguisher, colour, endpoint    *)
(*   - IPv6 flow specification NLRI (AFI 2, SAFI 133), RFC 8956 section 3   *)
(* For each: a reference encoder over abstract values (so that TLC checks   *)
(* as a theorem that the walker accepts every RFC encoding of the pool),   *)
(* the structural walker, and the value pool.                              *)
(***************************************************************************)
EXTENDS WireUpdate

(***************************** SR Policy in a Tunnel Encapsulation attribute ***)
\* optional label-shaped SID: label (20 bits), TC (3), S (1), TTL (8) as four octets
Sid4(l, tc, s, ttl) == <<l \div 4096, (l \div 16) % 256, (l % 16) * 16 + tc * 2 + s, ttl>>
\* a segment is a tuple of integers: <<type, fields...>> with or without the four SID fields at the end
\*   <<1, l, tc, s, ttl>>                       type A: MPLS label
\*   <<3, a, b, c, d>> (+ l, tc, s, ttl)        type C: IPv4 node address (+ SID)
\*   <<5, ifhi, iflo, a, b, c, d>> (+ SID)      type E: IPv4 node + local interface id
\*   <<6, l1..l4, r1..r4>> (+ SID)              type F: IPv4 local + remote address
SegSid(sg, n) == Sid4(sg[n + 1], sg[n + 2], sg[n + 3], sg[n + 4])
EncSegment(sg) ==
   CASE sg[1] = 1 -> <<1, 6, 0, 0>> \o SegSid(sg, 1)
     [] sg[1] = 3 -> IF Len(sg) = 5 THEN <<3, 6, 0, 0>> \o SubSeq(sg, 2, 5) ELSE <<3, 10, 0, 0>> \o SubSeq(sg, 2, 5) \o SegSid(sg, 5)
     [] sg[1] = 5 -> IF Len(sg) = 7 THEN <<5, 10, 0, 0>> \o U16(sg[2]) \o U16(sg[3]) \o SubSeq(sg, 4, 7)
                     ELSE <<5, 14, 0, 0>> \o U16(sg[2]) \o U16(sg[3]) \o SubSeq(sg, 4, 7) \o SegSid(sg, 7)
     [] sg[1] = 6 -> IF Len(sg) = 9 THEN <<6, 10, 0, 0>> \o SubSeq(sg, 2, 9) ELSE <<6, 14, 0, 0>> \o SubSeq(sg, 2, 9) \o SegSid(sg, 9)
\* a segment list: optional weight (<<>> or <<hi, lo>>) and the segments
EncSegList(sl) ==
   LET body == (IF sl.w = <<>> THEN <<>> ELSE <<9, 6, 0, 0>> \o U32hl(sl.w)) \o Flatten([i \in 1..Len(sl.segs) |-> EncSegment(sl.segs[i])])
   IN <<128>> \o U16(1 + Len(body)) \o <<0>> \o body
\* a policy: enc "old" | "new" selects the code points; every optional part is <<>> when absent
Bsid4(l) == <<l \div 4096, (l \div 16) % 256, (l % 16) * 16, 0>>
EncPolicySubTlvs(p) ==
   LET new == p.enc = "new"
       pref == IF p.pref = <<>> THEN <<>> ELSE <<(IF new THEN 12 ELSE 6), 6, 0, 0>> \o U32hl(p.pref)
       bsid == IF p.bsid = <<>> THEN <<(IF new THEN 13 ELSE 7), 2, 0, 0>> ELSE <<(IF new THEN 13 ELSE 7), 6, 0, 0>> \o Bsid4(p.bsid[1])
       enlp == IF p.enlp = <<>> THEN <<>> ELSE <<14, 3, 0, 0, p.enlp[1]>>
       prio == IF p.prio = <<>> THEN <<>> ELSE <<15, 2, p.prio[1], 0>>
       name == IF p.name = <<>> THEN <<>> ELSE <<129>> \o U16(1 + Len(p.name)) \o <<0>> \o [i \in 1..Len(p.name) |-> p.name[i] % 256]
       rep == IF p.rep = <<>> THEN <<>> ELSE <<6, 6 + Len(p.rep[3])>> \o U32hl(p.rep[1]) \o U16(p.rep[2]) \o p.rep[3]
   IN pref \o bsid \o enlp \o prio \o name \o rep \o Flatten([i \in 1..Len(p.lists) |-> EncSegList(p.lists[i])])
EncTunnelEncaps(p) == LET v == EncPolicySubTlvs(p) IN U16(15) \o U16(Len(v)) \o v

\* walker: sub-sub-TLVs of a segment list (1-octet type, 1-octet length) with the lengths RFC 9256 fixes
RECURSIVE WfSegSubTlvs(_)
WfSegSubTlvs(b) ==
   IF b = <<>> THEN TRUE
   ELSE /\ Len(b) >= 2 /\ Len(b) >= 2 + b[2]
        /\ CASE b[1] = 9 -> b[2] = 6 [] b[1] = 1 -> b[2] = 6 [] b[1] = 3 -> b[2] \in {6, 10} [] b[1] \in {5, 6} -> b[2] \in {10, 14}
             [] b[1] = 2 -> b[2] = 18 [] b[1] = 4 -> b[2] \in {18, 22} [] OTHER -> TRUE
        /\ WfSegSubTlvs(Drop(b, 2 + b[2]))
\* sub-TLVs of a tunnel TLV: 1-octet type, length of 1 octet (type < 128) or 2 octets (type >= 128), summing exactly
RECURSIVE WfPolicySubTlvs(_)
WfPolicySubTlvs(b) ==
   IF b = <<>> THEN TRUE
   ELSE /\ Len(b) >= 2
        /\ LET two == b[1] >= 128
               hl == IF two THEN 3 ELSE 2
           IN /\ Len(b) >= hl
              /\ LET n == IF two THEN N16(b, 2) ELSE b[2]
                     v == SubSeq(b, hl + 1, hl + n)
                 IN /\ Len(b) >= hl + n
                    /\ CASE b[1] = 12 -> n = 6
                         [] b[1] = 6 -> n \in {6, 10, 22}          \* old preference code point / remote endpoint
                         [] b[1] \in {7, 13} -> n \in {2, 6, 18}
                         [] b[1] = 14 -> n = 3
                         [] b[1] = 15 -> n = 2
                         [] b[1] = 129 -> n >= 1
                         [] b[1] = 128 -> n >= 1 /\ WfSegSubTlvs(Tail(v))
                         [] OTHER -> TRUE
                    /\ WfPolicySubTlvs(Drop(b, hl + n))
RECURSIVE WfTunnelEncaps(_)
WfTunnelEncaps(v) ==     \* tunnel TLVs: 2-octet type, 2-octet length, summing exactly to the attribute
   IF v = <<>> THEN TRUE
   ELSE /\ Len(v) >= 4 /\ Len(v) >= 4 + N16(v, 3)
        /\ (N16(v, 1) = 15 => WfPolicySubTlvs(SubSeq(v, 5, 4 + N16(v, 3))))
        /\ WfTunnelEncaps(Drop(v, 4 + N16(v, 3)))

(***************************** PMSI Tunnel attribute (22) *********************)
\* [leaf, ttype, label, id]: flags octet, tunnel type, MPLS label in the high-order 20 bits of 3 octets, tunnel identifier
EncPmsi(p) == <<p.leaf, p.ttype>> \o U24(p.label * 16) \o p.id
WfPmsi(v) == Len(v) >= 5 /\ (v[2] = 0 => Len(v) = 5) /\ (v[2] = 6 => Len(v) \in {9, 21})

(***************************** SR Policy NLRI (SAFI 73) ***********************)
EncSrteNlri(n) == LET b == U32hl(n.dist) \o U32hl(n.color) \o n.ep IN <<8 * Len(b)>> \o b
RECURSIVE WfSrteList(_)
WfSrteList(b) == IF b = <<>> THEN TRUE ELSE b[1] \in {96, 192} /\ Len(b) >= 1 + b[1] \div 8 /\ WfSrteList(Drop(b, 1 + b[1] \div 8))

(***************************** value pools *********************************)
SidPool == {<<2000, 0, 0, 255>>, <<1048575, 7, 1, 0>>, <<0, 0, 1, 1>>}
SegPool ==
   {<<1>> \o sd : sd \in SidPool}
   \cup {<<3, 10, 1, 1, 1>>, <<3, 255, 255, 255, 255>>} \cup {<<3, 10, 1, 1, 1>> \o sd : sd \in SidPool}
   \cup {<<5, 0, 7, 10, 1, 1, 1>>, <<5, 65535, 65535, 0, 0, 0, 0>>} \cup {<<5, 1, 0, 10, 1, 1, 1>> \o sd : sd \in SidPool}
   \cup {<<6, 10, 1, 1, 1, 10, 1, 1, 2>>} \cup {<<6, 10, 1, 1, 1, 10, 1, 1, 2>> \o sd : sd \in SidPool}
SegList(w, segs) == [w |-> w, segs |-> segs]
ManySegs(n) == [i \in 1..n |-> <<1, 16000 + i, 0, 0, 255>>]
ListPool ==
   {<<SegList(w, <<sg>>)>> : w \in {<<>>, <<0, 10>>, <<65535, 65535>>}, sg \in SegPool}
   \cup {<<>>, <<SegList(<<0, 1>>, <<>>)>>, <<SegList(<<>>, <<<<1, 2000, 0, 0, 255>>, <<3, 10, 1, 1, 1, 3000, 0, 0, 255>>>>)>>,
         <<SegList(<<0, 10>>, <<<<1, 2000, 0, 0, 255>>>>), SegList(<<0, 20>>, <<<<1, 2001, 0, 0, 255>>, <<6, 10, 1, 1, 1, 10, 1, 1, 2>>>>)>>,
         <<SegList(<<>>, ManySegs(31))>>, <<SegList(<<0, 1>>, ManySegs(40))>>, <<SegList(<<>>, ManySegs(20)), SegList(<<>>, ManySegs(20))>>}
Pol(enc, pref, bsid, enlp, prio, name, rep, lists) ==
   [enc |-> enc, pref |-> pref, bsid |-> bsid, enlp |-> enlp, prio |-> prio, name |-> name, rep |-> rep, lists |-> lists]
OneList == <<SegList(<<>>, <<<<1, 2000, 0, 0, 255>>>>)>>
Name(n) == [i \in 1..n |-> 97 + (i % 26)]
PolicyPool ==
   {Pol(e, <<>>, <<>>, <<>>, <<>>, <<>>, <<>>, ls) : e \in {"old", "new"}, ls \in ListPool}
   \cup {Pol(e, pf, bs, <<>>, <<>>, <<>>, <<>>, OneList) : e \in {"old", "new"}, pf \in {<<>>, <<0, 100>>, <<65535, 65535>>}, bs \in {<<>>, <<0>>, <<25102>>, <<1048575>>}}
   \cup {Pol("new", <<0, 100>>, <<25102>>, en, pr, <<>>, <<>>, OneList) : en \in {<<>>, <<1>>, <<4>>}, pr \in {<<>>, <<0>>, <<255>>}}
   \cup {Pol("new", <<0, 100>>, <<25102>>, <<>>, <<>>, nm, <<>>, OneList) : nm \in {Name(1), Name(20), Name(254), Name(255), Name(300)}}
   \* names given as code points that are not ASCII (RFC 9256 2.4.6: printable ASCII): construction fails or stays valid
   \cup {Pol("new", <<0, 100>>, <<25102>>, <<>>, <<>>, nm, rp, OneList) : nm \in {<<99, 97, 102, 233>>, <<20013, 25991>>, <<112, 128512>>},
                                                                             rp \in {<<>>, <<<<0, 65001>>, 1, <<10, 0, 0, 9>>>>}}
   \cup {Pol("new", <<0, 100>>, <<25102>>, <<>>, <<>>, <<>>, rp, OneList) : rp \in {<<<<0, 65001>>, 1, <<10, 0, 0, 9>>>>, <<<<1, 4464>>, 2, <<32, 1, 13, 184, 0, 0, 0, 0, 0, 0, 0, 0, 0, 0, 0, 9>>>>}}
   \cup {Pol("new", <<0, 100>>, <<25102>>, <<1>>, <<7>>, Name(30), <<<<0, 65001>>, 1, <<10, 0, 0, 9>>>>, <<SegList(<<0, 1>>, ManySegs(35))>>)}
PmsiPool == {[leaf |-> lf, ttype |-> t, label |-> l, id |-> id] : lf \in {0, 1}, t \in 0..7, l \in {0, 1234, 1048575},
                                                                id \in {<<>>, <<192, 168, 10, 10>>, <<32, 1, 13, 184, 0, 0, 0, 0, 0, 0, 0, 0, 0, 0, 0, 9>>}}
SrtePool == {[afi |-> a, nh |-> nh, dist |-> d, color |-> c, ep |-> ep] : a \in {1, 2}, nh \in {<<>>, <<10, 0, 0, 9>>, <<32, 1, 13, 184, 0, 0, 0, 0, 0, 0, 0, 0, 0, 0, 0, 9>>},
                d \in {<<0, 0>>, <<65535, 65535>>}, c \in {<<0, 1>>, <<65535, 65535>>},
                ep \in {<<10, 0, 0, 1>>, <<0, 0, 0, 0>>, <<32, 1, 13, 184, 0, 0, 0, 0, 0, 0, 0, 0, 0, 0, 0, 1>>}}
=============================================================================
