------------------------------ MODULE TraceLog ------------------------------
(***************************************************************************)
(* C20 on recorded executions: after every step of a history replayed on   *)
(* the REAL DefaultHandler (events, rotations, crashes cut at an octet     *)
(* offset of the last write, restarts) the harness parses the message      *)
(* directory into files / lines / pieces and TLC evaluates the audit of    *)
(* MsgLog.tla on it.                                                       *)
(***************************************************************************)
EXTENDS MsgLogRef, IOUtils

Tr == ndJsonDeserialize(IOEnv.TRACE_FILE)
VARIABLES l, prevHealthy
tvars == <<l, prevHealthy>>

Rj(r, clause, extra) == PrintT("@R " \o ToJson([tid |-> r.tid, i |-> r.i, clause |-> clause, pst |-> r.k, cls |-> r.kind \o r.cut, extra |-> extra]))
Ck(r, clause, cond, extra) == IF cond THEN TRUE ELSE Rj(r, clause, extra)
NHealthy(d) == Cardinality({i \in 1..Len(Flat(d)) : Healthy(Flat(d)[i])})

CheckLine(r) ==
   /\ Ck(r, "C20.audit", Audit(r.disk, r.running), <<>>)
   /\ Ck(r, "C20.norefusal", ~r.refused, <<>>)
   /\ Ck(r, "C20.oneline", (r.k = "event") => (NHealthy(r.disk) = prevHealthy + 1), <<prevHealthy, NHealthy(r.disk)>>)
   /\ Ck(r, "C20.keys", r.badkeys = 0, <<>>)
   /\ Ck(r, "C20.noescape", r.exc = 0, <<>>)

TInit == l = 1 /\ prevHealthy = 0
TNext == /\ l <= Len(Tr)
         /\ LET r == Tr[l] IN
            /\ (IF r.k = "begin" THEN TRUE ELSE CheckLine(r))
            /\ prevHealthy' = IF r.k = "begin" THEN 0 ELSE NHealthy(r.disk)
         /\ l' = l + 1
AllConsumed == TLCGet("stats").diameter - 1 = Len(Tr)
=============================================================================
