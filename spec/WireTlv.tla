------------------------------- MODULE WireTlv -------------------------------
(***************************************************************************)
(* Layer W: tables and input generators for the TLV-structured decoders    *)
(* (BGP-LS attribute TLVs RFC 7752 / 8571 / 9085 / 9086 / 9514, Prefix-SID *)
(* RFC 8669 / 9252) and the exhaustive short-input space of C11.           *)
(* Only structure is specified here (type codes, length widths); the value *)
(* semantics of these ~60 TLV decoders are deliberately not transcribed    *)
(* (DESIGN.md section 7): for them the properties checked are termination  *)
(* / bounded work (C11), containment (C10) and compositionality (C15).     *)
(***************************************************************************)
EXTENDS WireCore, TLCExt, Json

CONSTANTS FAMILY, MAXSHORT

\* BGP-LS attribute TLV type codes the specification knows (IANA "BGP-LS NLRI and Attribute TLVs" registry, the ones
\* yabgp registers a decoder for); the harness cross-checks this set against LinkState.registered_tlvs at run time
LsAttrTypes == {258, 266, 267, 1024, 1025, 1026, 1027, 1028, 1029, 1030, 1031, 1034, 1035, 1036, 1038, 1050, 1088, 1089, 1090, 1091, 1092,
                1093, 1094, 1095, 1096, 1097, 1098, 1099, 1100, 1101, 1102, 1103, 1106, 1107, 1108, 1110, 1114, 1115, 1116, 1117, 1118,
                1119, 1120, 1152, 1153, 1154, 1155, 1156, 1158, 1161, 1162, 1170, 1171, 1173, 1250, 1251, 1252}
PrefixSidTypes == {1, 3, 4, 5, 6}
Tlv22(t, body) == U16(t) \o U16(Len(body)) \o body
Tlv12(t, body) == <<t>> \o U16(Len(body)) \o body
\* body patterns of length n: zeros, ones, counting, and "sub-TLV looking" (a length octet that lies)
Bodies(n) == {Zeros(n), [i \in 1..n |-> 255], [i \in 1..n |-> i], [i \in 1..n |-> IF i % 2 = 0 THEN 7 ELSE 4],
              [i \in 1..n |-> IF i = 2 THEN 5 ELSE IF i = 4 THEN 9 ELSE 1]}
\* every registered link-state TLV type x every sub-length 0..16 x body pattern; the same with a lying length field
LsGrid(lazy) == {[ep |-> "LinkState.unpack", b |-> Tlv22(t, bd)] : t \in LsAttrTypes \cup {0, 1, 1023, 65535}, bd \in UNION {Bodies(n) : n \in 0..16}}
          \cup {[ep |-> "LinkState.unpack", b |-> U16(t) \o U16(n + 3) \o Zeros(n)] : t \in LsAttrTypes, n \in {0, 1, 7}}
SidGrid(lazy) == {[ep |-> "BGPPrefixSID.unpack", b |-> Tlv12(t, bd)] : t \in PrefixSidTypes \cup {0, 2, 255}, bd \in UNION {Bodies(n) : n \in 0..16}}
\* self-similar nesting: a link-state TLV whose value is a fixed part followed by n sibling TLVs of the SAME type (each with
\* the same fixed part): a decoder that lets an inner TLV see its later siblings does work exponential in n
Rep(n, x) == Flatten([i \in 1..n |-> x])
NestGrid(lazy) == {[ep |-> "LinkState.unpack", b |-> Tlv22(t, Zeros(f) \o Rep(n, Tlv22(t, Zeros(f))))] :
                     t \in LsAttrTypes, f \in {0, 4, 8, 16, 20, 22, 24, 32}, n \in {10, 18}}
                  \cup {[ep |-> "LinkState.unpack", b |-> Tlv22(t, Zeros(f) \o Tlv22(t, Zeros(f) \o Rep(8, Tlv22(t, Zeros(f) \o Rep(8, Tlv22(t, Zeros(f)))))))] :
                     t \in LsAttrTypes, f \in {0, 8, 22}}
\* nesting in DEPTH: a TLV whose value is a fixed part followed by one TLV of the same type, d levels deep, the innermost one
\* empty, one octet long or just the fixed part (a decoder that retries an inner TLV after a failure does work exponential in d)
RECURSIVE Deep(_, _, _, _)
Deep(t, f, d, inner) == IF d = 0 THEN Tlv22(t, inner) ELSE Tlv22(t, Zeros(f) \o Deep(t, f, d - 1, inner))
DeepGrid(lazy) == {[ep |-> "LinkState.unpack", b |-> Deep(t, f, d, inner)] :
                     t \in LsAttrTypes, f \in {0, 8, 22}, d \in {2, 8, 14, 18, 22, 40}, inner \in {<<>>, <<0>>, Zeros(8), Zeros(22)}}
\* text-like bodies of 17..255 octets for every link-state TLV type (names, opaque data): long runs of name characters followed
\* by one that is none, dotted labels, separators only (a decoder that matches its value against a pattern does bounded work)
TextRun(n, c) == [i \in 1..n |-> c]
TextGrid(lazy) == {[ep |-> "LinkState.unpack", b |-> Tlv22(t, bd)] : t \in LsAttrTypes,
                     bd \in {TextRun(n, 97) \o <<32, 40, 108, 97, 98, 41>> : n \in {17, 24, 28, 32, 40, 100, 249}}
                          \cup {TextRun(n, 45) \o <<33>> : n \in {30, 254}} \cup {Rep(n, <<97, 46>>) \o <<47>> : n \in {15, 60, 127}}
                          \cup {TextRun(255, 97), TextRun(255, 46), Rep(40, <<97, 98, 45, 49, 95>>) \o <<0>>}}
\* OPEN messages (body after the header) carrying one capability of every code the decoder interprets (and unknown ones)
\* with every value length 0..16 x body pattern, alone and after a valid multiprotocol capability, one parameter each or
\* packed together; plus capability / parameter length fields that lie
CapCodes == {0, 1, 2, 5, 64, 65, 69, 70, 71, 73, 128, 131, 255}
Cap(c, v) == <<c, Len(v)>> \o v
Param(c) == <<2, Len(c)>> \o c
OpenBody(params) == <<4>> \o U16(65002) \o U16(90) \o <<10, 0, 0, 2>> \o <<Len(params)>> \o params
MpCap == Cap(1, <<0, 1, 0, 1>>)
CapGrid(lazy) == {[ep |-> "Open.parse", b |-> OpenBody(Param(Cap(c, bd)))] : c \in CapCodes, bd \in UNION {Bodies(n) : n \in 0..16}}
           \cup {[ep |-> "Open.parse", b |-> OpenBody(Param(MpCap) \o Param(Cap(c, bd)))] : c \in CapCodes, bd \in UNION {Bodies(n) : n \in {0, 1, 3, 4, 5, 8}}}
           \cup {[ep |-> "Open.parse", b |-> OpenBody(Param(MpCap \o Cap(c, bd) \o Cap(2, <<>>)))] : c \in CapCodes, bd \in UNION {Bodies(n) : n \in {0, 2, 4, 6, 7, 12}}}
           \cup {[ep |-> "Open.parse", b |-> OpenBody(<<2, n + 2, c, n + k>> \o Zeros(n))] : c \in CapCodes, n \in {0, 4}, k \in {1, 200}}
           \cup {[ep |-> "Open.parse", b |-> <<4>> \o U16(65002) \o U16(90) \o <<10, 0, 0, 2>> \o <<k>> \o Param(MpCap)] : k \in {0, 1, 5, 7, 255}}
\* UPDATE messages (body after the header) with one attribute of every type code the decoder interprets x flags x value
\* length 0..16 x body pattern, after the mandatory attributes; with and without the extended-length bit
AttrCodes == {0, 1, 2, 3, 4, 5, 6, 7, 8, 9, 10, 14, 15, 16, 17, 18, 22, 23, 25, 29, 32, 40, 128, 255}
BaseAttrs == <<64, 1, 1, 0, 64, 2, 6, 2, 1, 0, 0, 253, 233, 64, 3, 4, 10, 0, 0, 1>>
UpdBody(attrs) == U16(0) \o U16(Len(attrs)) \o attrs \o <<24, 10, 1, 1>>
AttrGrid(lazy) == {[ep |-> "Update.parse", b |-> UpdBody(BaseAttrs \o <<f, t, Len(bd)>> \o bd)] : f \in {64, 192, 128}, t \in AttrCodes, bd \in UNION {Bodies(n) : n \in 0..16}}
            \cup {[ep |-> "Update.parse", b |-> UpdBody(BaseAttrs \o <<f + 16, t>> \o U16(Len(bd)) \o bd)] : f \in {64, 192}, t \in AttrCodes, bd \in UNION {Bodies(n) : n \in {0, 1, 4, 9}}}
\* MP_REACH_NLRI / MP_UNREACH_NLRI of every family the decoder knows (and unknown ones) with NLRI octets from the patterns
AfiSafis == {<<1, 1>>, <<1, 2>>, <<1, 4>>, <<1, 73>>, <<1, 128>>, <<1, 133>>, <<1, 134>>, <<2, 1>>, <<2, 4>>, <<2, 128>>, <<2, 133>>, <<25, 65>>, <<25, 70>>,
             <<16388, 71>>, <<16388, 72>>, <<1, 71>>, <<2, 73>>, <<0, 0>>, <<65535, 255>>}
MpGrid(lazy) == {[ep |-> "Update.parse", b |-> UpdBody(BaseAttrs \o <<144, 14>> \o U16(5 + nhl + Len(bd)) \o U16(a[1]) \o <<a[2], nhl>> \o Zeros(nhl) \o <<0>> \o bd)] :
              a \in AfiSafis, nhl \in {0, 4, 12, 16, 24, 32}, bd \in UNION {Bodies(n) : n \in {0, 1, 2, 3, 4, 5, 8, 12, 13, 16}}}
          \cup {[ep |-> "Update.parse", b |-> U16(0) \o U16(6 + Len(bd)) \o <<144, 15>> \o U16(3 + Len(bd)) \o U16(a[1]) \o <<a[2]>> \o bd] :
              a \in AfiSafis, bd \in UNION {Bodies(n) : n \in {0, 1, 2, 3, 4, 5, 8, 12, 13, 16}}}
\* every value of the two-octet flowspec NLRI length field 0xf000..0xffff (and the one-octet values next to the switch),
\* in MP_REACH_NLRI and MP_UNREACH_NLRI, IPv4 and IPv6, followed by one more component
FsLenGrid(lazy) ==
   {[ep |-> "Update.parse", b |-> U16(0) \o U16(4 + 3 + 2 + Len(t)) \o <<144, 15>> \o U16(3 + 2 + Len(t)) \o U16(afi) \o <<133>> \o <<hi, lo>> \o t] :
        afi \in {1, 2}, hi \in 238..255, lo \in 0..255, t \in {<<3, 129, 6, 1, 0>>}}
   \cup {[ep |-> "Update.parse", b |-> UpdBody(BaseAttrs \o <<144, 14>> \o U16(5 + 2 + Len(t)) \o U16(afi) \o <<133, 0, 0>> \o <<hi, lo>> \o t)] :
        afi \in {1}, hi \in 238..255, lo \in 0..255, t \in {<<3, 129, 6, 1, 0>>}}
\* BGP-LS NLRI (RFC 7752 3.2, AFI 16388 / SAFI 71): every NLRI type x protocol x one descriptor TLV of every kind with
\* bodies of 0..21 octets (the IP reachability TLV 265 = mask octet + up to 16 prefix octets lies inside), node descriptor
\* sub-TLVs, and a node descriptor followed by a prefix descriptor; handed to the NLRI decoder and, inside MP_REACH_NLRI
\* and MP_UNREACH_NLRI, to Update.parse
LsNlri(t, p, descs) == U16(t) \o U16(9 + Len(descs)) \o <<p>> \o Zeros(8) \o descs
LsNlriGrid(lazy) ==
   LET outer == {256, 257, 258, 259, 260, 261, 262, 263, 264, 518, 0}
       node == Tlv22(256, Tlv22(512, <<0, 0, 253, 233>>) \o Tlv22(515, <<10, 0, 0, 1>>))
       some == UNION {Bodies(n) : n \in {0, 1, 2, 3, 4, 5, 8, 9, 16, 17, 21}}
       all == UNION {Bodies(n) : n \in 0..21}
       descs == {Tlv22(o, bd) : o \in outer, bd \in some} \cup {Tlv22(265, bd) : bd \in all}
                \cup {Tlv22(o, Tlv22(sb, bd)) : o \in {256, 257}, sb \in {512, 513, 514, 515, 516, 0}, bd \in UNION {Bodies(n) : n \in {0, 1, 4, 8, 9}}}
                \cup {node \o Tlv22(o, bd) : o \in {263, 264, 265}, bd \in all}
       nl(ts, ps) == {LsNlri(t, p, d) : t \in ts, p \in ps, d \in descs}
   IN {[ep |-> "BGPLS.parse", b |-> x] : x \in nl({1, 2, 3, 4, 6, 0}, {2, 3})}
      \cup {[ep |-> "Update.parse", b |-> UpdBody(BaseAttrs \o <<144, 14>> \o U16(9 + Len(x)) \o U16(16388) \o <<71, 4, 10, 0, 0, 9, 0>> \o x)] : x \in nl({2, 4}, {2})}
      \cup {[ep |-> "Update.parse", b |-> U16(0) \o U16(7 + Len(x)) \o <<144, 15>> \o U16(3 + Len(x)) \o U16(16388) \o <<71>> \o x] : x \in nl({3, 4}, {3})}
\* all octet strings of length <= MAXSHORT
RECURSIVE Strings(_)
Strings(n) == IF n = 0 THEN {<<>>} ELSE LET p == Strings(n - 1) IN p \cup {Append(s, x) : s \in {q \in p : Len(q) = n - 1}, x \in 0..255}
ShortInputs(lazy) == {[ep |-> "*", b |-> s] : s \in Strings(MAXSHORT)}

VARIABLE vec
Vecs == CASE FAMILY = "lsgrid" -> LsGrid(0) [] FAMILY = "sidgrid" -> SidGrid(0) [] FAMILY = "short" -> ShortInputs(0)
          [] FAMILY = "nestgrid" -> NestGrid(0) [] FAMILY = "fslen" -> FsLenGrid(0) [] FAMILY = "capgrid" -> CapGrid(0) [] FAMILY = "attrgrid" -> AttrGrid(0) [] FAMILY = "mpgrid" -> MpGrid(0) [] FAMILY = "lsnlri" -> LsNlriGrid(0) [] FAMILY = "deepgrid" -> DeepGrid(0) [] FAMILY = "textgrid" -> TextGrid(0)
Init == vec \in Vecs
Next == FALSE /\ UNCHANGED vec
Emit == PrintT("@W " \o ToJson(vec))
=============================================================================
