------------------------------- MODULE WireTlv -------------------------------
(***************************************************************************)
(* Layer W: tables and input generators for the TLV-structured decoders    *)
(* (BGP-LS attribute TLVs RFC 7752 / 8571 / 9085 / 9086 / 9514, Prefix-SID *)
(* RFC 8669 / 9252) and the exhaustive short-input space of C11.           *)
(* Only structure is specified here (type codes, length widths); the value *)
(* semantics of these ~60 TLV decoders are deliberately not transcribed    *)
(* (DESIGN.md section 7): for them the properties checked are termination  *)
(* / bounded work (C11), containment (C10) and compositionality (C15).     *)
(***************************************************************************)
EXTENDS WireCore, TLCExt, Json

CONSTANTS FAMILY, MAXSHORT

\* BGP-LS attribute TLV type codes the specification knows (IANA "BGP-LS NLRI and Attribute TLVs" registry, the ones
\* yabgp registers a decoder for); the harness cross-checks this set against LinkState.registered_tlvs at run time
LsAttrTypes == {258, 266, 267, 1024, 1025, 1026, 1027, 1028, 1029, 1030, 1031, 1034, 1035, 1036, 1038, 1050, 1088, 1089, 1090, 1091, 1092,
                1093, 1094, 1095, 1096, 1097, 1098, 1099, 1100, 1101, 1102, 1103, 1106, 1107, 1108, 1110, 1114, 1115, 1116, 1117, 1118,
                1119, 1120, 1152, 1153, 1154, 1155, 1156, 1158, 1161, 1162, 1170, 1171, 1173, 1250, 1251, 1252}
PrefixSidTypes == {1, 3, 4, 5, 6}
Tlv22(t, body) == U16(t) \o U16(Len(body)) \o body
Tlv12(t, body) == <<t>> \o U16(Len(body)) \o body
\* body patterns of length n: zeros, ones, counting, and "sub-TLV looking" (a length octet that lies)
Bodies(n) == {Zeros(n), [i \in 1..n |-> 255], [i \in 1..n |-> i], [i \in 1..n |-> IF i % 2 = 0 THEN 7 ELSE 4],
              [i \in 1..n |-> IF i = 2 THEN 5 ELSE IF i = 4 THEN 9 ELSE 1]}
\* every registered link-state TLV type x every sub-length 0..16 x body pattern; the same with a lying length field
LsGrid == {[ep |-> "LinkState.unpack", b |-> Tlv22(t, bd)] : t \in LsAttrTypes \cup {0, 1, 1023, 65535}, bd \in UNION {Bodies(n) : n \in 0..16}}
          \cup {[ep |-> "LinkState.unpack", b |-> U16(t) \o U16(n + 3) \o Zeros(n)] : t \in LsAttrTypes, n \in {0, 1, 7}}
SidGrid == {[ep |-> "BGPPrefixSID.unpack", b |-> Tlv12(t, bd)] : t \in PrefixSidTypes \cup {0, 2, 255}, bd \in UNION {Bodies(n) : n \in 0..16}}
\* all octet strings of length <= MAXSHORT
RECURSIVE Strings(_)
Strings(n) == IF n = 0 THEN {<<>>} ELSE LET p == Strings(n - 1) IN p \cup {Append(s, x) : s \in {q \in p : Len(q) = n - 1}, x \in 0..255}
ShortInputs == {[ep |-> "*", b |-> s] : s \in Strings(MAXSHORT)}

VARIABLE vec
Vecs == CASE FAMILY = "lsgrid" -> LsGrid [] FAMILY = "sidgrid" -> SidGrid [] FAMILY = "short" -> ShortInputs
Init == vec \in Vecs
Next == FALSE /\ UNCHANGED vec
Emit == PrintT("@W " \o ToJson(vec))
=============================================================================
