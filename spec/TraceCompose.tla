----------------------------- MODULE TraceCompose -----------------------------
(***************************************************************************)
(* C15 on recorded decodings: every line holds what the REAL list decoder  *)
(* of one kind returned for the concatenation of two (or more) encodings   *)
(* (lhs, as a list of canonical element texts) and the concatenation of    *)
(* what it returned for each of them alone (rhs); for permutation lines    *)
(* lhs / rhs are the decodings of the permuted and the original attribute  *)
(* block; for insertion lines lhs is the decoding with an unknown TLV      *)
(* inserted, minus that TLV.  TLC compares.                                *)
(***************************************************************************)
EXTENDS Naturals, Integers, Sequences, FiniteSets, TLC, TLCExt, Json, IOUtils

Tr == ndJsonDeserialize(IOEnv.TRACE_FILE)
VARIABLE l
Rj(r, clause, extra) == PrintT("@R " \o ToJson([tid |-> r.id, i |-> 0, clause |-> clause, pst |-> r.list, cls |-> r.cls, extra |-> extra]))
Ck(r, clause, cond, extra) == IF cond THEN TRUE ELSE Rj(r, clause, extra)
CheckLine(r) ==
   /\ Ck(r, "C15.compose", (r.mode = "concat" /\ r.parts_ok) => (~r.raised /\ r.lhs = r.rhs), <<Len(r.lhs), Len(r.rhs)>>)
   /\ Ck(r, "C15.order", r.mode = "perm" => (~r.raised /\ r.lhs = r.rhs), <<>>)
   /\ Ck(r, "C15.unknown", (r.mode = "insert" /\ r.parts_ok) => (~r.raised /\ r.lhs = r.rhs), <<Len(r.lhs), Len(r.rhs)>>)
Init == l = 1
Next == l <= Len(Tr) /\ CheckLine(Tr[l]) /\ l' = l + 1
AllConsumed == TLCGet("stats").diameter - 1 = Len(Tr)
=============================================================================
