------------------------------- MODULE RibRef -------------------------------
(***************************************************************************)
(* The dictionary model of C19 (constant-level): what a table looks like   *)
(* after applying the route operations of one UPDATE in order, and whether *)
(* any of them changed it.  Shared by the model Rib.tla and the trace      *)
(* specification TraceRib.tla.                                             *)
(*   table : function key -> attribute id (0 = absent)                     *)
(*   op    : <<"del", key>> or <<"set", key, attr>>                        *)
(* An UPDATE is applied as the sequence: all withdrawals, then all         *)
(* announcements (RFC 4271 3.1 / 9: the order the message lists them).     *)
(***************************************************************************)
EXTENDS Naturals, Integers, Sequences, FiniteSets, TLC, TLCExt, Json

ApplyOp(t, op) == IF op[1] = "del" THEN [t EXCEPT ![op[2]] = 0] ELSE [t EXCEPT ![op[2]] = op[3]]
RECURSIVE Apply(_, _)
Apply(t, ops) == IF ops = <<>> THEN t ELSE Apply(ApplyOp(t, Head(ops)), Tail(ops))
\* number of operations that changed the table at the moment they were applied
RECURSIVE Changes(_, _)
Changes(t, ops) ==
   IF ops = <<>> THEN 0
   ELSE LET t1 == ApplyOp(t, Head(ops)) IN (IF t1 # t THEN 1 ELSE 0) + Changes(t1, Tail(ops))
OpsOf(wd, nl, a) == [i \in 1..Len(wd) |-> <<"del", wd[i]>>] \o [i \in 1..Len(nl) |-> <<"set", nl[i], a>>]
Empty(keys) == [k \in keys |-> 0]
=============================================================================
