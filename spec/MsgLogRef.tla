------------------------------ MODULE MsgLogRef ------------------------------
(***************************************************************************)
(* The C20 audit of a message-log directory (constant-level operators),    *)
(* shared by the model MsgLog.tla and the trace specification TraceLog.tla.*)
(***************************************************************************)
EXTENDS Naturals, Integers, Sequences, FiniteSets, TLC, TLCExt, Json

Piece(n, full) == [seq |-> n, full |-> full]
Line(ps, nl) == [ps |-> ps, nl |-> nl]
Healthy(ln) == Len(ln.ps) = 1 /\ ln.ps[1].full /\ ln.nl
TornLine(ln) == Len(ln.ps) = 1 /\ ~ln.ps[1].full /\ ln.nl

\* all complete records on disk in file/line order
RECURSIVE Flat(_)
Flat(d) == IF d = <<>> THEN <<>> ELSE Flat(SubSeq(d, 1, Len(d) - 1)) \o d[Len(d)]

\* every line is one complete record, except that each crash may leave ONE torn record on a line of its own (and,
\* right after the crash, an unterminated last line); complete records are numbered 1, 2, 3, ... in strictly
\* increasing order and a number is never written twice; a record torn by a crash may or may not have consumed its
\* number, so a gap between two complete records is at most the number of torn lines between them.
RECURSIVE SeqOk(_, _, _)
SeqOk(lines, prev, ntorn) ==      \* prev: last complete seq; ntorn: torn lines seen since
   IF lines = <<>> THEN TRUE
   ELSE LET ln == Head(lines) IN
        IF Len(ln.ps) # 1 THEN FALSE                                   \* two records glued on one line
        ELSE LET p == ln.ps[1] IN
             IF p.full
             THEN /\ p.seq >= prev + 1 /\ p.seq <= prev + 1 + ntorn
                  /\ SeqOk(Tail(lines), p.seq, 0)
             ELSE /\ (p.seq = 0 \/ (p.seq >= prev + 1 /\ p.seq <= prev + 1 + ntorn))   \* 0: too short to show its number
                  /\ SeqOk(Tail(lines), prev, ntorn + 1)
Terminated(d, running) ==      \* only the very last line may lack its newline, and only while the process is down
   \A f \in 1..Len(d) : \A i \in 1..Len(d[f]) : d[f][i].nl \/ (f = Len(d) /\ i = Len(d[f]) /\ ~running)
Audit(d, running) == SeqOk(Flat(d), 0, 0) /\ Terminated(d, running)
=============================================================================
