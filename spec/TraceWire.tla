------------------------------ MODULE TraceWire ------------------------------
(***************************************************************************)
(* Codec properties on recorded results (code -> spec).  Every line is one *)
(* test vector (enumerated by TLC from the wire modules) together with     *)
(* what the REAL yabgp codec did with it:                                  *)
(*   ref   reference encoding (from the spec)                              *)
(*   impl  octets yabgp's encoder returned for the value (<<>> = none)     *)
(*   raised / none   the encoder raised / silently returned nothing        *)
(*   rt_ok   yabgp.parse(impl) gave back exactly the value                 *)
(*   dec_ok  yabgp.parse(ref) gave back exactly the value, no error        *)
(*   dec_err yabgp.parse(ref) reported an error                            *)
(* TLC evaluates the structural walker and the normal form on `impl`.      *)
(***************************************************************************)
EXTENDS WireMp, WireOpen, WireComm, TLCExt, Json, IOUtils

CONSTANTS PROPS
Tr == ndJsonDeserialize(IOEnv.TRACE_FILE)
VARIABLES l
Rj(r, clause, extra) == PrintT("@R " \o ToJson([tid |-> r.id, i |-> 0, clause |-> clause, pst |-> r.kind, cls |-> r.cls, extra |-> extra]))
Ck(p, r, clause, cond, extra) == IF p \notin PROPS \/ cond THEN TRUE ELSE Rj(r, clause, extra)

HasImpl(r) == r.impl # <<>>
CheckLine(r) ==
   /\ Ck("C06", r, "C06.constructs", r.kind = "upd" => (~r.raised /\ ~r.none), <<>>)
   /\ Ck("C06", r, "C06.roundtrip", (r.kind = "upd" /\ HasImpl(r)) => r.rt_ok, r.diff)
   /\ Ck("C06", r, "C06.meaning", (r.kind = "upd" /\ HasImpl(r) /\ WfUpdate(r.impl, r.asn4)) => NormUpdate(r.impl) = NormUpdate(r.ref), <<>>)
   \* other spellings of the same addresses (leading zeros): refused, or the message decodes to the values the text denotes
   /\ Ck("C06", r, "C06.spelling", (r.kind = "updspell" /\ HasImpl(r)) => r.rt_ok, r.diff)
   /\ Ck("C08", r, "C08.wellformed", (r.kind \in {"upd", "updspell"} /\ HasImpl(r)) => WfUpdate(r.impl, r.asn4), <<>>)
   /\ Ck("C08", r, "C08.silent", r.kind = "upd" => ~r.none, <<>>)
   /\ Ck("C09", r, "C09.decode", r.kind \in {"upd", "updvar", "mpdec"} => r.dec_ok, r.ddiff)
   /\ Ck("C09", r, "C09.error", r.kind = "cor" => r.dec_err, <<>>)
SessKinds == {"openrt", "notif", "rr", "ka"}
WfSess(r) ==
   CASE r.kind = "openrt" -> WfOpen(r.impl) [] r.kind = "notif" -> WfNotification(r.impl)
     [] r.kind = "rr" -> WfRouteRefresh(r.impl) [] r.kind = "ka" -> WfKeepalive(r.impl) [] OTHER -> TRUE
CheckSess(r) ==
   /\ Ck("C14", r, "C14.constructs", r.kind \in SessKinds => (~r.raised /\ ~r.none), r.diff)
   /\ Ck("C14", r, "C14.roundtrip", (r.kind \in SessKinds /\ HasImpl(r)) => r.rt_ok, r.diff)
   /\ Ck("C14", r, "C14.meaning", (r.kind \in SessKinds /\ HasImpl(r) /\ WfSess(r)) =>
                                     IF r.kind = "openrt" THEN NormOpen(r.impl) = NormOpen(r.ref) ELSE r.impl = r.ref, <<>>)
   /\ Ck("C14", r, "C14.decode", r.kind \in SessKinds \cup {"open"} => r.dec_ok, r.ddiff)
   /\ Ck("C08", r, "C08.wellformed", (r.kind \in SessKinds /\ HasImpl(r)) => WfSess(r), <<>>)
   /\ Ck("C08", r, "C08.silent", r.kind \in SessKinds => ~r.none, <<>>)
\* C17: value octets of attribute `t` in an UPDATE message (<<-1>> when absent or the message is malformed)
AttrValueOf(m, t) ==
   IF Len(m) < 23 THEN <<-1>>
   ELSE LET b == Drop(m, 19)  wl == N16(b, 1) IN
        IF Len(b) < 4 + wl THEN <<-1>>
        ELSE LET al == N16(b, 3 + wl) IN
             IF Len(b) < 4 + wl + al THEN <<-1>>
             ELSE LET as == SplitAttrs(SubSeq(b, 5 + wl, 4 + wl + al))
                      hit == {i \in 1..Len(as) : as[i].t = t}
                  IN IF hit = {} THEN <<-1>> ELSE as[CHOOSE i \in hit : TRUE].v
CheckComm(r) ==
   r.kind = "comm" =>
      /\ Ck("C17", r, "C17.rendered", r.cls # "raw" => r.decoded, r.diff)
      /\ Ck("C17", r, "C17.accepted", r.decoded => r.accepted, r.diff)
      /\ Ck("C17", r, "C17.octets", r.accepted => (WfUpdate(r.bin, r.asn4) /\ (r.cls # "raw" => SameExt(AttrValueOf(r.bin, r.sub), r.ref))), r.text)
      /\ Ck("C17", r, "C17.sametext", r.accepted => r.text2_same, r.diff)
      /\ Ck("C17", r, "C17.comma", r.accepted => r.comma_same, r.diff)       \* the comma-list spelling of the REST layer means the same values
      /\ Ck("C17", r, "C17.sent", r.accepted => (r.sent_ok /\ r.wire = r.bin /\ r.exc = 0), r.text)
\* multiprotocol families (C07, C08)
CheckMp(r) ==
   r.kind = "mp" =>
      /\ Ck("C07", r, "C07.constructs", ~r.raised /\ ~r.none, r.diff)
      /\ Ck("C07", r, "C07.roundtrip", HasImpl(r) => r.rt_ok, r.diff)
      /\ Ck("C07", r, "C07.meaning", (HasImpl(r) /\ WfUpdateMp(r.impl, TRUE)) => NormMpUpdate(r.impl) = NormMpUpdate(r.ref), <<>>)
      /\ Ck("C07", r, "C07.decode", r.dec_ok, r.ddiff)
      /\ Ck("C08", r, "C08.silent", ~r.none, <<>>)
      /\ Ck("C08", r, "C08.wellformed", HasImpl(r) => WfUpdateMp(r.impl, TRUE), <<>>)
\* construct-only families (C08): whatever the encoder returns must pass the walker
CheckEnc(r) ==
   r.kind = "enc" => Ck("C08", r, "C08.wellformed", HasImpl(r) => WfUpdateMp(r.impl, TRUE), r.diff)
\* UPDATEs constructed with add-path identifiers (C08 / C09)
CheckAP(r) ==
   r.kind = "updap" =>
      /\ Ck("C08", r, "C08.silent", ~r.none, <<>>)
      /\ Ck("C08", r, "C08.wellformed", HasImpl(r) => WfUpdateAP(r.impl, TRUE), <<>>)
      /\ Ck("C08", r, "C08.meaning", (HasImpl(r) /\ WfUpdateAP(r.impl, TRUE)) => NormUpdateAP(r.impl) = NormUpdateAP(r.ref), <<>>)
      /\ Ck("C09", r, "C09.decode", r.dec_ok, r.ddiff)
\* the codec is a function of its input: repeated evaluation (at once, and again after all other vectors) gives the same result
CheckPure(r) ==
   r.kind # "comm" =>
      /\ Ck("C06", r, "C06.pure", r.kind \in {"upd", "updspell"} => r.pure, r.impure)
      /\ Ck("C07", r, "C07.pure", r.kind = "mp" => r.pure, r.impure)
      /\ Ck("C08", r, "C08.pure", r.pure, r.impure)
      /\ Ck("C09", r, "C09.pure", r.kind \in {"upd", "updvar", "cor", "updap", "mpdec"} => r.pure, r.impure)
      /\ Ck("C14", r, "C14.pure", r.kind \in SessKinds \cup {"open"} => r.pure, r.impure)
Init == l = 1
Next == l <= Len(Tr) /\ CheckPure(Tr[l]) /\ (IF Tr[l].kind = "mp" THEN CheckMp(Tr[l]) ELSE IF Tr[l].kind = "enc" THEN CheckEnc(Tr[l]) ELSE IF Tr[l].kind = "comm" THEN CheckComm(Tr[l]) ELSE IF Tr[l].kind = "updap" THEN CheckAP(Tr[l]) ELSE (CheckLine(Tr[l]) /\ CheckSess(Tr[l]))) /\ l' = l + 1
AllConsumed == TLCGet("stats").diameter - 1 = Len(Tr)
=============================================================================
