CONSTANTS CRT = 2 HOLDCFG = 60 IDLEHOLD = 2 LARGEHOLD = 24 TCPTO = 3 MAXLIVE = 2 PEERHOLDS = {0, 1, 30, 90}
  TICKNUM = 10 TICKDEN = 1 CNTCAP = 0
  MSGS = {"OPEN", "OPENBADVER", "OPENBADAS", "OPENSHORT", "KA", "KABODY", "UPD", "UPDBAD", "NOTIFVER", "NOTIF", "NOTIFSHORT", "RR", "RRBAD", "BADMARKER", "BADLEN", "BADLENSMALL", "BADTYPE"}
INIT Init
NEXT Next
VIEW View
CONSTRAINT Bound
CHECK_DEADLOCK FALSE
