------------------------------ MODULE WireOpen ------------------------------
(***************************************************************************)
(* Layer W: OPEN (RFC 4271 4.2, capabilities RFC 5492 / 4760 / 2918 /      *)
(* 7313 / 4724 / 6793 / 7911 / 5549 / LLGR), NOTIFICATION (4.5),           *)
(* KEEPALIVE (4.4) and ROUTE-REFRESH (RFC 2918): reference encoder,        *)
(* structural walker, normal form and value pools for C14 / C08.           *)
(*                                                                         *)
(*   open  [ver, as |-> <<hi,lo>> (the true AS), hold, id |-> 4 octets,    *)
(*          caps |-> <<<<code, value octets>>..>>, pack |-> "each"|"one"|"split"] *)
(*   The 2-octet My-AS field carries AS_TRANS when the true AS needs four  *)
(*   octets (then capability 65 must be in caps).                          *)
(***************************************************************************)
EXTENDS WireCore

AsTrans == 23456
MyAsField(o) == IF o.as[1] = 0 THEN o.as[2] ELSE AsTrans
EncCap(c) == <<c[1], Len(c[2])>> \o c[2]
Param(capsBytes) == <<2, Len(capsBytes)>> \o capsBytes
EncParams(caps, pack) ==
   CASE caps = <<>> -> <<>>
     [] pack = "each" -> Flatten([i \in 1..Len(caps) |-> Param(EncCap(caps[i]))])
     [] pack = "one" -> Param(Flatten([i \in 1..Len(caps) |-> EncCap(caps[i])]))
     [] OTHER -> \* "split": the first two capabilities share a parameter, the others get one each
          IF Len(caps) < 2 THEN Param(EncCap(caps[1]))
          ELSE Param(EncCap(caps[1]) \o EncCap(caps[2])) \o Flatten([i \in 1..(Len(caps) - 2) |-> Param(EncCap(caps[i + 2]))])
EncOpenBody(o) ==
   LET p == EncParams(o.caps, o.pack) IN <<o.ver>> \o U16(MyAsField(o)) \o U16(o.hold) \o o.id \o <<Len(p)>> \o p
EncOpen(o) == Message(1, EncOpenBody(o))
EncNotification(code, sub, data) == Message(3, <<code, sub>> \o data)
EncKeepalive == Message(4, <<>>)
EncRouteRefresh(typ, afi, res, safi) == Message(typ, U16(afi) \o <<res, safi>>)

(***************************** structural walkers **************************)
WfHeader(m, typ) == Len(m) >= 19 /\ Len(m) <= 4096 /\ Take(m, 16) = Marker /\ N16(m, 17) = Len(m) /\ m[19] = typ
\* optional parameters: <<type, length, value>> summing exactly; parameter type 2 holds capability TLVs summing exactly
RECURSIVE WfParams(_)
WfParams(b) ==
   IF b = <<>> THEN TRUE
   ELSE /\ Len(b) >= 2 /\ Len(b) >= 2 + b[2]
        /\ (b[1] = 2 => WfTlvs(SubSeq(b, 3, 2 + b[2]), 1, 1))
        /\ WfParams(Drop(b, 2 + b[2]))
\* lengths the capabilities with a fixed format must have
CapLenOk(c) ==
   CASE c.t = 1 -> Len(c.v) = 4 [] c.t \in {2, 70, 128} -> Len(c.v) = 0 [] c.t = 65 -> Len(c.v) = 4
     [] c.t = 69 -> Len(c.v) % 4 = 0 /\ Len(c.v) > 0 [] c.t = 5 -> Len(c.v) % 6 = 0 /\ Len(c.v) > 0 [] c.t = 71 -> Len(c.v) % 7 = 0
     [] OTHER -> TRUE
RECURSIVE CapsOf(_)
CapsOf(b) ==      \* all capability TLVs of an optional-parameter block, in order
   IF b = <<>> THEN <<>>
   ELSE (IF b[1] = 2 THEN SplitTlvs(SubSeq(b, 3, 2 + b[2]), 1, 1) ELSE <<>>) \o CapsOf(Drop(b, 2 + b[2]))
WfOpen(m) ==
   /\ WfHeader(m, 1) /\ Len(m) >= 29
   /\ LET b == Drop(m, 19) IN
      /\ b[10] = Len(b) - 10
      /\ WfParams(Drop(b, 10))
      /\ \A i \in 1..Len(CapsOf(Drop(b, 10))) : CapLenOk(CapsOf(Drop(b, 10))[i])
WfNotification(m) == WfHeader(m, 3) /\ Len(m) >= 21
WfKeepalive(m) == WfHeader(m, 4) /\ Len(m) = 19
WfRouteRefresh(m) == (WfHeader(m, 5) \/ WfHeader(m, 128)) /\ Len(m) = 23

\* normal form: what an OPEN says, independent of parameter packaging and capability order
RECURSIVE SortCaps(_)
SortCaps(cs) ==
   IF cs = <<>> THEN <<>>
   ELSE LET key(c) == <<c.t, c.v>>
            m == CHOOSE i \in 1..Len(cs) : \A j \in 1..Len(cs) : cs[i].t < cs[j].t \/ (cs[i].t = cs[j].t /\ (Len(cs[i].v) < Len(cs[j].v) \/ (Len(cs[i].v) = Len(cs[j].v) /\ i <= j)))
        IN <<cs[m]>> \o SortCaps([k \in 1..(Len(cs) - 1) |-> IF k < m THEN cs[k] ELSE cs[k + 1]])
NormOpen(m) ==
   LET b == Drop(m, 19) IN
   [ver |-> b[1], myas |-> N16(b, 2), hold |-> N16(b, 4), id |-> SubSeq(b, 6, 9), caps |-> SortCaps(CapsOf(Drop(b, 10)))]

(***************************** value pools *********************************)
MP(afi, safi) == <<1, U16(afi) \o <<0, safi>>>>
As4Cap(hl) == <<65, U32hl(hl)>>
\* one capability of every kind the decoder interprets, plus unknown codes
CapKinds(as) ==
   <<MP(1, 1), <<2, <<>>>>, <<128, <<>>>>, <<70, <<>>>>, <<64, <<0, 120>>>>, As4Cap(as), <<69, <<0, 1, 1, 3>>>>, <<5, <<0, 1, 0, 1, 0, 2>>>>,
     <<71, <<0, 1, 1, 0, 0, 0, 60>>>>, <<131, <<>>>>, <<99, <<1, 2>>>>, <<6, <<>>>>>>      \* (6: a code without decoder and without value)
MoreCaps(as) ==
   {MP(2, 1), MP(1, 128), MP(25, 70), MP(16388, 71), <<64, <<128, 0, 0, 1, 1, 128>>>>, <<69, <<0, 1, 1, 1, 0, 2, 1, 2>>>>,
    <<5, <<0, 1, 0, 1, 0, 2, 0, 1, 0, 128, 0, 2>>>>, <<71, <<0, 1, 1, 128, 255, 255, 255, 0, 2, 1, 0, 0, 0, 0>>>>, <<200, <<>>>>, <<0, <<7>>>>}
AsPool == {<<0, 1>>, <<0, 23455>>, <<0, 23456>>, <<0, 65535>>, <<1, 0>>, <<1, 4464>>, <<32768, 0>>, <<65535, 65535>>}
HoldPool == {0, 1, 2, 3, 90, 180, 255, 256, 32768, 65535}
\* (RFC 6286: any non-zero value; the decoding property speaks of every in-range value, so the address classes - this
\* network, loopback, link local, multicast, reserved, broadcast - and their borders are all here)
IdPool == {<<10, 0, 0, 1>>, <<0, 0, 0, 1>>, <<255, 255, 255, 255>>, <<1, 2, 3, 4>>, <<0, 0, 0, 0>>, <<0, 255, 255, 255>>, <<127, 0, 0, 1>>, <<169, 254, 0, 1>>,
           <<223, 255, 255, 255>>, <<224, 0, 0, 0>>, <<224, 0, 0, 5>>, <<239, 255, 255, 255>>, <<240, 0, 0, 0>>, <<255, 255, 255, 254>>, <<128, 0, 0, 0>>}
Op(as, hold, id, caps, pack) == [ver |-> 4, as |-> as, hold |-> hold, id |-> id, caps |-> caps, pack |-> pack]
NeedsAs4(o) == o.as[1] # 0 => \E i \in 1..Len(o.caps) : o.caps[i][1] = 65
Packs == {"each", "one", "split"}
RECURSIVE SubSeqs(_, _)
SubSeqs(s, k) ==      \* all sub-sequences of length <= k of the sequence s, in every order (no repetition)
   IF k = 0 THEN {<<>>}
   ELSE LET prev == SubSeqs(s, k - 1) IN
        prev \cup {Append(p, s[i]) : p \in {q \in prev : Len(q) = k - 1}, i \in {j \in 1..Len(s) : TRUE}}
NoRepeat(cs) == \A i, j \in 1..Len(cs) : i # j => cs[i] # cs[j]
OpenPool(lazy) ==
   LET K == CapKinds(<<0, 65002>>) IN
   \* AS numbers and hold times x with / without optional parameters
   {Op(a, h, <<10, 0, 0, 2>>, IF a[1] = 0 /\ nocaps THEN <<>> ELSE <<MP(1, 1), As4Cap(a)>>, "each") : a \in AsPool, h \in HoldPool, nocaps \in BOOLEAN}
   \cup {Op(<<0, 65002>>, 90, i, cs, "each") : i \in IdPool, cs \in {<<>>, <<MP(1, 1), As4Cap(<<0, 65002>>)>>}}
   \* every capability alone, every ordered pair and triple, in every packaging
   \cup {Op(<<0, 65002>>, 90, <<10, 0, 0, 2>>, cs, p) : cs \in {c \in SubSeqs(K, 3) : NoRepeat(c)}, p \in Packs}
   \cup {Op(<<0, 65002>>, 90, <<10, 0, 0, 2>>, <<c>>, p) : c \in MoreCaps(<<0, 65002>>), p \in {"each"}}
   \* list-valued capabilities (multiprotocol, add-path, extended next hop, LLGR) given as SEVERAL TLVs of the same code
   \* (RFC 5492 section 4), adjacent and separated by another capability, in every packaging
   \cup UNION {{Op(<<0, 65002>>, 90, <<10, 0, 0, 2>>, cs, p) : cs \in {<<K[i], y>>, <<y, K[i]>>, <<K[i], <<2, <<>>>>, y>>, <<y, As4Cap(<<0, 65002>>), K[i]>>}, p \in Packs}
               : i \in {j \in 1..Len(K) : K[j][1] \in {1, 69, 5, 71}}, y \in {m \in MoreCaps(<<0, 65002>>) : m[1] \in {1, 69, 5, 71}}} 
   \* optional parameters that fill the one-octet length field to its end (253, 254, 255 octets): one parameter with one
   \* unknown capability, and multiprotocol capabilities one parameter each
   \cup {Op(<<0, 65002>>, 90, <<10, 0, 0, 2>>, <<<<99, [i \in 1..n |-> i % 256]>>>>, "one") : n \in {249, 250, 251}}
   \cup {Op(<<0, 65002>>, 90, <<10, 0, 0, 2>>, [i \in 1..29 |-> MP(1, 1)] \o <<As4Cap(<<0, 65002>>), <<2, <<>>>>, <<71, <<0, 1, 1, 128, 0, 0, 120>>>>>>, "each")}
   \* all kinds together, forwards and backwards
   \cup {Op(<<0, 65002>>, 90, <<10, 0, 0, 2>>, K, p) : p \in Packs}
   \cup {Op(<<1, 4464>>, 90, <<10, 0, 0, 2>>, [i \in 1..Len(K) |-> CapKinds(<<1, 4464>>)[Len(K) + 1 - i]], p) : p \in Packs}
\* values the agent itself can be asked to construct: the capabilities its encoder knows, in the order it emits them
\* (multiprotocol..., cisco route refresh, route refresh, 4-octet AS, extended next hop, add-path, enhanced route refresh)
ConstructCaps(as) ==
   <<{<<>>, <<MP(1, 1)>>, <<MP(1, 1), MP(2, 1), MP(1, 128)>>}, {<<>>, <<<<128, <<>>>>>>}, {<<>>, <<<<2, <<>>>>>>}, {<<>>, <<As4Cap(as)>>},
     {<<>>, <<<<5, <<0, 1, 0, 1, 0, 2>>>>>>, <<<<5, <<0, 1, 0, 1, 0, 2, 0, 1, 0, 128, 0, 2>>>>>>, <<<<5, <<0, 1, 0, 1, 0, 2, 0, 1, 0, 1, 0, 1>>>>>>,
      <<<<5, <<0, 1, 0, 128, 0, 2, 0, 1, 0, 1, 0, 2, 0, 1, 0, 128, 0, 1>>>>>>}, {<<>>, <<<<69, <<0, 1, 1, 3>>>>>>, <<<<69, <<0, 1, 1, 1>>>>>>},
     {<<>>, <<<<70, <<>>>>>>}>>
OpenRtFor(a) ==
   LET CC == ConstructCaps(a) IN
   {Op(a, h, i, c1 \o c2 \o c3 \o c4 \o c5 \o c6 \o c7, "each") :
        h \in {0, 3, 65535}, i \in {<<10, 0, 0, 1>>, <<255, 255, 255, 254>>},
        c1 \in CC[1], c2 \in CC[2], c3 \in CC[3], c4 \in (IF a[1] = 0 THEN CC[4] ELSE {<<As4Cap(a)>>}), c5 \in CC[5], c6 \in CC[6], c7 \in CC[7]}
OpenRtPool(lazy) == UNION {OpenRtFor(a) : a \in {<<0, 1>>, <<0, 65535>>, <<1, 0>>, <<65535, 65535>>}}
NotifPool(lazy) == {[code |-> c, sub |-> s, data |-> Zeros(n)] : c \in {0, 1, 2, 3, 4, 5, 6, 7, 255}, s \in {0, 1, 2, 3, 4, 5, 6, 7, 8, 9, 10, 11, 255}, n \in 0..3}
              \cup {[code |-> 2, sub |-> 2, data |-> <<253, 234>>], [code |-> 6, sub |-> 2, data |-> [i \in 1..60 |-> i]]}
              \* data that looks like the start of a message (all ones), for the codes next to it
              \cup {[code |-> c, sub |-> s, data |-> [i \in 1..n |-> 255]] : c \in {6, 255}, s \in {2, 255}, n \in {1, 13, 14, 15, 16, 17, 19, 40}}
              \cup {[code |-> 255, sub |-> 255, data |-> [i \in 1..14 |-> 255] \o <<0, 24, 3, 6, 2, 98, 121, 101>>]}
              \* the longest Data fields a 4096-octet message can carry (19 + 2 + 4075)
              \cup {[code |-> c, sub |-> 2, data |-> [i \in 1..n |-> i % 251]] : c \in {2, 6}, n \in {4073, 4074, 4075}}
RRPool(lazy) == {[typ |-> t, afi |-> a, res |-> r, safi |-> s] : t \in {5, 128}, a \in {0, 1, 2, 25, 16388, 65535}, r \in {0, 1, 255}, s \in {0, 1, 2, 4, 70, 71, 73, 128, 133, 255}}
=============================================================================
