------------------------------ MODULE WireCore ------------------------------
(***************************************************************************)
(* Layer W, core: octet-level vocabulary shared by the wire-format modules *)
(* (RFC 4271 4.1-4.3, RFC 4760, RFC 5492).  Encodings are Seq(0..255);     *)
(* a 32-bit field is the 4-tuple of its octets, so TLC's 32-bit integers   *)
(* are never exceeded.  Everything here is constant-level: these operators *)
(* are the reference encoder and the structural walker the checks of       *)
(* C06-C09, C14, C15, C17 evaluate with TLC.                               *)
(***************************************************************************)
EXTENDS Naturals, Integers, Sequences, FiniteSets, TLC

Octet == 0..255
Marker == [i \in 1..16 |-> 255]
U8(n) == <<n>>
U16(n) == <<n \div 256, n % 256>>
U24(n) == <<n \div 65536, (n \div 256) % 256, n % 256>>
\* a 32-bit value given as <<high 16 bits, low 16 bits>>
U32hl(hl) == U16(hl[1]) \o U16(hl[2])
N16(b, i) == b[i] * 256 + b[i + 1]
Drop(b, n) == SubSeq(b, n + 1, Len(b))
Take(b, n) == SubSeq(b, 1, n)
RECURSIVE Flatten(_)
Flatten(ss) == IF ss = <<>> THEN <<>> ELSE Head(ss) \o Flatten(Tail(ss))
Zeros(n) == [i \in 1..n |-> 0]

Header(len, typ) == Marker \o U16(len) \o <<typ>>
Message(typ, body) == Header(19 + Len(body), typ) \o body

(***************************** IPv4 / IPv6 prefixes ************************)
\* prefix value: [l |-> length in bits, a |-> all address octets (4 or 16), host bits zero]
POctets(l) == (l + 7) \div 8
EncPrefix(p) == <<p.l>> \o Take(p.a, POctets(p.l))
\* legal variant: the bits after the prefix length in the last octet are irrelevant on the wire (RFC 4271 4.3)
LowMask(l) == LET r == l % 8 IN IF r = 0 THEN 0 ELSE CASE r = 1 -> 127 [] r = 2 -> 63 [] r = 3 -> 31 [] r = 4 -> 15 [] r = 5 -> 7 [] r = 6 -> 3 [] r = 7 -> 1
EncPrefixDirty(p) ==
   LET n == POctets(p.l) IN
   IF n = 0 \/ p.l % 8 = 0 THEN EncPrefix(p)
   ELSE <<p.l>> \o Take(p.a, n - 1) \o <<p.a[n] + LowMask(p.l)>>
EncPrefixList(ps) == Flatten([i \in 1..Len(ps) |-> EncPrefix(ps[i])])
\* structural walk of a prefix list: every element occupies 1 + ceil(len/8) octets and they sum exactly
RECURSIVE WfPrefixList(_, _)
WfPrefixList(b, maxlen) ==
   IF b = <<>> THEN TRUE
   ELSE /\ b[1] <= maxlen /\ Len(b) >= 1 + POctets(b[1])
        /\ WfPrefixList(Drop(b, 1 + POctets(b[1])), maxlen)
RECURSIVE CountPrefixes(_)
CountPrefixes(b) == IF b = <<>> THEN 0 ELSE 1 + CountPrefixes(Drop(b, 1 + POctets(b[1])))

(***************************** path attribute TLV **************************)
\* RFC category of an attribute type: <<optional, transitive>> bits (RFC 4271 5, 4456, 4760, 4360, 6793, 8092, ...)
Category(t) ==
   CASE t \in {1, 2, 3, 5, 6} -> 64                      \* well-known: transitive
     [] t \in {4, 9, 10, 14, 15} -> 128                   \* optional non-transitive
     [] t \in {7, 8, 16, 17, 18, 22, 23, 25, 32, 40} -> 192   \* optional transitive
     [] OTHER -> -1                                       \* unknown to this table: only the generic rules apply
\* flag rules: category bits, Partial only on optional transitive, unused bits zero
FlagsOk(t, f) ==
   LET opt == (f \div 128) % 2  tr == (f \div 64) % 2  part == (f \div 32) % 2  low == f % 16 IN
   /\ low = 0
   /\ (opt = 0 => tr = 1)
   /\ (part = 1 => (opt = 1 /\ tr = 1))
   /\ (Category(t) # -1 => opt * 128 + tr * 64 = Category(t))
AttrTLV(t, val, forceExt) ==
   LET ext == Len(val) > 255 \/ forceExt
       f == Category(t) + (IF ext THEN 16 ELSE 0)
   IN <<f, t>> \o (IF ext THEN U16(Len(val)) ELSE <<Len(val)>>) \o val
\* split a block of attribute TLVs -> sequence of [f, t, v, ext]; BadAttr marks a length that runs over the block
BadAttr == [f |-> -1, t |-> -1, v |-> <<>>, ext |-> FALSE]
RECURSIVE SplitAttrs(_)
SplitAttrs(b) ==
   IF b = <<>> THEN <<>>
   ELSE IF Len(b) < 3 THEN <<BadAttr>>
   ELSE LET ext == (b[1] \div 16) % 2 = 1
            hl == IF ext THEN 4 ELSE 3
        IN IF Len(b) < hl THEN <<BadAttr>>
           ELSE LET al == IF ext THEN N16(b, 3) ELSE b[3] IN
                IF Len(b) < hl + al THEN <<BadAttr>>
                ELSE <<[f |-> b[1], t |-> b[2], v |-> SubSeq(b, hl + 1, hl + al), ext |-> ext]>> \o SplitAttrs(Drop(b, hl + al))
\* generic TLV walker (type width tw, length width lw in octets): TRUE iff the pieces sum exactly to the container
RECURSIVE WfTlvs(_, _, _)
WfTlvs(b, tw, lw) ==
   IF b = <<>> THEN TRUE
   ELSE /\ Len(b) >= tw + lw
        /\ LET n == IF lw = 1 THEN b[tw + 1] ELSE N16(b, tw + 1) IN
           /\ Len(b) >= tw + lw + n
           /\ WfTlvs(Drop(b, tw + lw + n), tw, lw)
RECURSIVE SplitTlvs(_, _, _)
SplitTlvs(b, tw, lw) ==
   IF b = <<>> THEN <<>>
   ELSE LET n == IF lw = 1 THEN b[tw + 1] ELSE N16(b, tw + 1)
            ty == IF tw = 1 THEN b[1] ELSE N16(b, 1)
        IN <<[t |-> ty, v |-> SubSeq(b, tw + lw + 1, tw + lw + n)]>> \o SplitTlvs(Drop(b, tw + lw + n), tw, lw)
=============================================================================
