--------------------------------- MODULE Rib ---------------------------------
(***************************************************************************)
(* Layer I + P for C19: the RIB / version bookkeeping of yabgp/core/       *)
(* protocol.py (update_rib_in_ipv4, update_rib_out_ipv4,                   *)
(* update_receive_verion, update_send_version, init_rib) with RIB          *)
(* maintenance enabled.  Families: IPv4 unicast, IPv4 flowspec, VPNv4.     *)
(* tab[d][f] : table of direction d ("in"/"out") and family f              *)
(* ver[d][f] : the version counter the REST interface reports              *)
(* Every UPDATE (received from the peer, or sent through REST send/update) *)
(* carries up to two withdrawals and two announcements of one family with  *)
(* one attribute set (order and duplicates matter).                        *)
(***************************************************************************)
EXTENDS RibRef

CONSTANTS K4, KF, KV, \* route keys per family (IPv4 prefixes, flowspec rules, VPNv4 routes)
          ATTRS,     \* attribute-set ids, e.g. {1, 2}
          MAXOPS,    \* UPDATEs per behaviour (CONSTRAINT)
          MAXSEQ     \* routes per withdrawn / announced list (1 or 2)

Fams == {"ipv4", "flowspec", "mpls_vpn"}
KEYS == [ipv4 |-> K4, flowspec |-> KF, mpls_vpn |-> KV]
Dirs == {"in", "out"}
VARIABLES up, tab, ver, n, ev
vars == <<up, tab, ver, n, ev>>

Seqs(S) == {<<>>} \cup {<<x>> : x \in S} \cup (IF MAXSEQ >= 2 THEN {<<x, y>> : x, y \in S} ELSE {})
Init == /\ up = TRUE /\ n = 0
        /\ tab = [d \in Dirs |-> [f \in Fams |-> Empty(KEYS[f])]]
        /\ ver = [d \in Dirs |-> [f \in Fams |-> 0]]
        /\ ev = [k |-> "init", d |-> "", f |-> "", wd |-> <<>>, nl |-> <<>>, a |-> 0]
\* one UPDATE of family f in direction d.  An IPv4 UPDATE may withdraw and announce at once; the multiprotocol
\* families use MP_REACH and / or MP_UNREACH
Update(d, f, wd, nl, a) ==
   /\ up /\ n < MAXOPS /\ (wd # <<>> \/ nl # <<>>)
   \* (a multiprotocol UPDATE may carry MP_UNREACH and MP_REACH together; the order in which the two are applied is not
   \*  defined for the same route, so the two lists are disjoint then)
   /\ (f # "ipv4" => (wd = <<>> \/ nl = <<>> \/ {wd[i] : i \in 1..Len(wd)} \cap {nl[i] : i \in 1..Len(nl)} = {}))
   /\ LET ops == OpsOf(wd, nl, a) IN
      /\ tab' = [tab EXCEPT ![d][f] = Apply(@, ops)]
      /\ ver' = [ver EXCEPT ![d][f] = @ + Changes(tab[d][f], ops)]     \* one step per changed route, like the code
   /\ n' = n + 1 /\ UNCHANGED up
   /\ ev' = [k |-> "update", d |-> d, f |-> f, wd |-> wd, nl |-> nl, a |-> a]
\* the session drops (connectionLost: init_rib) and a new one is established (a fresh protocol object)
Drop == /\ up /\ up' = FALSE /\ tab' = [d \in Dirs |-> [f \in Fams |-> Empty(KEYS[f])]] /\ UNCHANGED <<ver, n>>
        /\ ev' = [k |-> "drop", d |-> "", f |-> "", wd |-> <<>>, nl |-> <<>>, a |-> 0]
NewSession == /\ ~up /\ up' = TRUE /\ ver' = [d \in Dirs |-> [f \in Fams |-> 0]] /\ UNCHANGED <<tab, n>>
              /\ ev' = [k |-> "newsession", d |-> "", f |-> "", wd |-> <<>>, nl |-> <<>>, a |-> 0]
Next == \/ \E d \in Dirs, f \in Fams, a \in ATTRS : \E wd \in Seqs(KEYS[f]), nl \in Seqs(KEYS[f]) : Update(d, f, wd, nl, a)
        \/ Drop \/ NewSession
Spec == Init /\ [][Next]_vars

(***************************** properties **********************************)
\* the table is the fold of the updates since the session started, empty while the session is down
C19_Empty == ~up => \A d \in Dirs, f \in Fams : tab[d][f] = Empty(KEYS[f])
\* a version counter increases exactly when an update changes its family's table, never otherwise
C19_Version == [][\A d \in Dirs, f \in Fams :
                     (up /\ up') => ((ver'[d][f] > ver[d][f]) <=> (ev'.k = "update" /\ ev'.d = d /\ ev'.f = f /\ Changes(tab[d][f], OpsOf(ev'.wd, ev'.nl, ev'.a)) > 0))]_vars
C19_Other == [][\A d \in Dirs, f \in Fams : (ev'.k = "update" /\ (ev'.d # d \/ ev'.f # f)) => (tab'[d][f] = tab[d][f] /\ ver'[d][f] = ver[d][f])]_vars

View == <<up, tab, ver, n>>
Id(v) == <<TLCFP(v), TLCFP(<<v, "salt">>)>>
EmitEdge == PrintT("@E " \o ToJson(<<Id(View), ev', [up |-> up', tab |-> tab', ver |-> ver'], <<>>, Id(<<up', tab', ver', n'>>)>>))
DumpState == PrintT("@S " \o ToJson(<<Id(View), [booted |-> n > 0 \/ ~up, up |-> up, n |-> n]>>))
=============================================================================
