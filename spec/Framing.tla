------------------------------ MODULE Framing ------------------------------
(***************************************************************************)
(* Layer I + P for C04: BGP.dataReceived / parse_buffer (yabgp/core/       *)
(* protocol.py) on an Established session, at the octet level.             *)
(*                                                                         *)
(*  - the implementation-shaped part mirrors the receive buffer and the    *)
(*    `while self.parse_buffer()` loop, including which frames are         *)
(*    consumed and which stay at the head of the buffer;                   *)
(*  - RefSet is the reference RFC 4271 deframer (4.1, 6.1): 16 x 0xFF,     *)
(*    19 <= length <= 4096, known type, evaluated on the delivered prefix  *)
(*    as a whole;                                                          *)
(*  - every path of Deliver(n) actions is one TCP segmentation of the      *)
(*    stream, so TLC checks independence of segmentation exhaustively for  *)
(*    the stream pool.                                                     *)
(* The same RefSet judges recorded executions of the real code in          *)
(* TraceFraming.tla.                                                       *)
(***************************************************************************)
EXTENDS FramingRef

CONSTANTS SHAPES,     \* names of message shapes streams are built from
          TAILS,      \* names of truncated shapes that may end a stream
          MAXSHAPES,  \* shapes per stream
          LOOPGUARD   \* TRUE: parse_buffer itself stops once the connection is closed (the code after the fix: commit);
                      \* FALSE: only dataReceived looks at BGP.disconnected (the defect: a chunk is parsed to its end)

Upd1Body == <<0, 0, 0, 14, 64, 1, 1, 0, 64, 2, 0, 64, 3, 4, 10, 0, 0, 2, 24, 10, 1, 1>>
KA == Frame(19, 4, <<>>)
Shape(n) ==
   CASE n = "KA" -> KA
     [] n = "UPD0" -> Frame(23, 2, <<0, 0, 0, 0>>)
     [] n = "UPD1" -> Frame(19 + Len(Upd1Body), 2, Upd1Body)
     [] n = "RR" -> Frame(23, 5, <<0, 1, 0, 1>>)
     [] n = "RR128" -> Frame(23, 128, <<0, 1, 0, 1>>)
     [] n = "NOTIF" -> Frame(21, 3, <<6, 2>>)
     [] n = "OPEN" -> Frame(29, 1, <<4, 253, 234, 0, 90, 10, 0, 0, 2, 0>>)
     [] n = "BADM1" -> [KA EXCEPT ![1] = 0]
     [] n = "BADM9" -> [KA EXCEPT ![9] = 254]
     [] n = "BADM16" -> [KA EXCEPT ![16] = 127]
     [] n = "LEN0" -> Marker \o <<0, 0, 4>>
     [] n = "LEN18" -> Marker \o <<0, 18, 4>>
     [] n = "LEN20" -> Frame(20, 4, <<0>>)
     [] n = "LEN4097" -> Marker \o U16(4097) \o <<4>>
     [] n = "LEN65535" -> Marker \o <<255, 255, 2>>
     [] n = "TYPE0" -> Frame(19, 0, <<>>)
     [] n = "TYPE6" -> Frame(19, 6, <<>>)
     [] n = "TYPE255" -> Frame(21, 255, <<1, 2>>)
     [] n = "OPENSHORT" -> Frame(21, 1, <<4, 0>>)
     [] n = "TRUNC10" -> SubSeq(KA, 1, 10)
     [] n = "TRUNC18" -> SubSeq(KA, 1, 18)
     [] n = "TRUNCUPD" -> SubSeq(Frame(19 + Len(Upd1Body), 2, Upd1Body), 1, 30)
     [] n = "NONE" -> <<>>

RECURSIVE Cat(_)
Cat(names) == IF names = <<>> THEN <<>> ELSE Shape(Head(names)) \o Cat(Tail(names))
ShapeSeqs == UNION {[1..k -> SHAPES] : k \in 1..MAXSHAPES}
StreamNames == {ns \o <<t>> : ns \in ShapeSeqs, t \in TAILS}

(***************************** the implementation **************************)
VARIABLES names,      \* the stream (sequence of shape names), chosen initially
          avail,      \* octets delivered so far
          st          \* [buf, closed, ext, nots, steps]: receive buffer, BGP.disconnected, reports, NOTIFICATIONs written, loop turns
vars == <<names, avail, st>>
Stream == Cat(names)

HeaderErr(r, sub) == [r EXCEPT !.nots = Append(@, <<1, sub>>), !.closed = TRUE]
\* one call of parse_buffer -> <<go on?, state>>
ParseOne(r) ==
   LET b == r.buf IN
   IF r.closed /\ LOOPGUARD THEN <<FALSE, r>>             \* we have closed the connection: nothing more is parsed
   ELSE IF Len(b) < 19 THEN <<FALSE, r>>
   ELSE IF SubSeq(b, 1, 16) # Marker THEN <<FALSE, HeaderErr(r, 1)>>
   ELSE LET len == b[17] * 256 + b[18]  typ == b[19] IN
        IF len < 19 \/ len > 4096 THEN <<FALSE, HeaderErr(r, 2)>>
        ELSE IF Len(b) < len THEN <<FALSE, r>>
        ELSE LET blen == len - 19
                 eat(x) == [x EXCEPT !.buf = SubSeq(b, len + 1, Len(b))]
                 rep(x, m) == [x EXCEPT !.ext = Append(@, m)]
             IN CASE typ = 1 -> IF blen < 10 THEN <<FALSE, HeaderErr(r, 2)>>
                                ELSE <<TRUE, eat([rep(r, "O") EXCEPT !.nots = Append(@, <<5, 0>>), !.closed = TRUE])>>
                  [] typ = 2 -> IF blen < 4 THEN <<TRUE, eat(r)>> ELSE <<TRUE, eat(rep(r, "U"))>>
                  [] typ = 3 -> IF blen < 2 THEN <<TRUE, eat(r)>> ELSE <<TRUE, eat([rep(r, "N") EXCEPT !.closed = TRUE])>>
                  [] typ = 4 -> IF blen # 0 THEN <<FALSE, HeaderErr(rep(r, "K"), 2)>> ELSE <<TRUE, eat(rep(r, "K"))>>
                  [] typ \in {5, 128} -> IF blen # 4 THEN <<TRUE, eat(r)>> ELSE <<TRUE, eat(rep(r, "R"))>>
                  [] OTHER -> <<TRUE, eat(HeaderErr(r, 3))>>
RECURSIVE Loop(_)
Loop(r) == LET p == ParseOne(r) IN IF p[1] THEN Loop([p[2] EXCEPT !.steps = @ + 1]) ELSE [p[2] EXCEPT !.steps = @ + 1]
\* BGP.dataReceived(chunk)
DataReceived(r, chunk) == IF r.closed THEN [r EXCEPT !.steps = 0] ELSE Loop([r EXCEPT !.buf = @ \o chunk, !.steps = 0])

Init == /\ names \in StreamNames /\ avail = 0
        /\ st = [buf |-> <<>>, closed |-> FALSE, ext |-> <<>>, nots |-> <<>>, steps |-> 0]
Deliver(n) == /\ avail + n <= Len(Stream)
              /\ st' = DataReceived(st, SubSeq(Stream, avail + 1, avail + n))
              /\ avail' = avail + n /\ UNCHANGED names
Next == \E n \in 1..(Len(Stream) - avail) : Deliver(n)
Spec == Init /\ [][Next]_vars

(***************************** properties ***********************************)
ObsOf(r) == Out(r.ext, IF r.nots = <<>> THEN <<>> ELSE r.nots[1], r.closed)
\* extraction and reaction are a function of the delivered prefix (hence of no segmentation) and RFC-conformant
C04_Ref == ObsOf(st) \in Ref(SubSeq(Stream, 1, avail))
\* one answer per framing violation, never repeated
C04_OneNotif == Len(st.nots) <= 1
\* the loop makes at most one turn per extracted message plus one
C04_Work == st.steps <= Len(st.ext) + Len(st.nots) + 2

\* collect-all reporting (DESIGN.md 2.3)
Report(c) == PrintT("@V " \o ToJson([clause |-> c, names |-> names, avail |-> avail, obs |-> ObsOf(st), nots |-> st.nots]))
Inv == /\ (IF C04_Ref THEN TRUE ELSE Report("C04.ref"))
       /\ (IF C04_OneNotif THEN TRUE ELSE Report("C04.onenotif"))
       /\ (IF C04_Work THEN TRUE ELSE Report("C04.work"))
\* behaviours for the replay: one line per stream
DumpStream == avail # 0 \/ PrintT("@F " \o ToJson([names |-> names, bytes |-> Stream]))
=============================================================================
