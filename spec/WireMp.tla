-------------------------------- MODULE WireMp --------------------------------
(***************************************************************************)
(* Layer W: MP_REACH_NLRI / MP_UNREACH_NLRI (RFC 4760) for the families    *)
(* yabgp both encodes and decodes (C07): IPv6 unicast (RFC 2545), labeled  *)
(* unicast v4/v6 (RFC 8277), VPNv4 / VPNv6 (RFC 4364, 4659), EVPN route    *)
(* types 1-4 (RFC 7432) and IPv4 flow specification (RFC 8955).            *)
(* Reference encoder, structural walker (C08) and bounded value pools.     *)
(*                                                                         *)
(*   label  0 .. 2^20-1                        rd  <<type, octets(6)>>     *)
(*   lu     [labels, p]      vpn  [labels, rd, p]                          *)
(*   evpn   <<1, [rd, esi, tag, label]>>  <<2, [rd, esi, tag, mac, ip, labels]>> *)
(*          <<3, [rd, tag, ip]>>          <<4, [rd, esi, ip]>>             *)
(*          esi = 10 octets; ip = <<>> | 4 octets | 16 octets              *)
(*   fs     rule = <<component..>>, component <<type, prefix>> (1, 2) or   *)
(*          <<type, <<[op, len, v]..>>>> with op in "=", "<", ">", "<=", ">=" *)
(***************************************************************************)
EXTENDS WireEncaps

(***************************** encoders *************************************)
EncLabel(l, bos) == U24(l * 16 + (IF bos THEN 1 ELSE 0))
EncLabels(ls) == Flatten([i \in 1..Len(ls) |-> EncLabel(ls[i], i = Len(ls))])
WithdrawLabel == <<128, 0, 0>>                          \* RFC 8277 2.4: 0x800000 in withdrawals
EncRd(rd) == U16(rd[1]) \o rd[2]
EncLu(r, reach) ==
   LET lb == IF reach THEN EncLabels(r.labels) ELSE WithdrawLabel IN
   <<8 * Len(lb) + r.p.l>> \o lb \o Take(r.p.a, POctets(r.p.l))
EncVpn(r, reach) ==
   LET lb == IF reach THEN EncLabels(r.labels) ELSE WithdrawLabel IN
   <<8 * Len(lb) + 64 + r.p.l>> \o lb \o EncRd(r.rd) \o Take(r.p.a, POctets(r.p.l))
EncIpLen(ip) == <<8 * Len(ip)>> \o ip
EncEvpn(e) ==
   LET t == e[1]  v == e[2]
       body == CASE t = 1 -> EncRd(v.rd) \o v.esi \o U32hl(v.tag) \o EncLabel(v.label, TRUE)
                 [] t = 2 -> EncRd(v.rd) \o v.esi \o U32hl(v.tag) \o <<48>> \o v.mac \o EncIpLen(v.ip) \o EncLabels(v.labels)
                 [] t = 3 -> EncRd(v.rd) \o U32hl(v.tag) \o EncIpLen(v.ip)
                 [] t = 4 -> EncRd(v.rd) \o v.esi \o EncIpLen(v.ip)
   IN <<t, Len(body)>> \o body
\* RFC 7432 7.1 / 7.2: an EVPN label field is 3 octets whose high-order 20 bits are the label; the low-order 4 bits are
\* not specified (yabgp fills them like a label stack entry, except that it leaves them 0 for label 0).  Two encodings
\* that differ only there say the same thing: the normal form clears them.
MaskEvpnRoute(t, v) ==
   CASE t = 1 /\ Len(v) = 25 -> [v EXCEPT ![25] = (@ \div 16) * 16]
     [] t = 2 /\ Len(v) >= 33 /\ v[30] \in {0, 32, 128} /\ (Len(v) - 30 - v[30] \div 8) \in {3, 6} ->
          LET nl == Len(v) - 30 - v[30] \div 8 IN
          [i \in 1..Len(v) |-> IF i = Len(v) \/ (nl = 6 /\ i = Len(v) - 3) THEN (v[i] \div 16) * 16 ELSE v[i]]
     [] OTHER -> v
MaskEvpnList(b) ==
   IF ~WfTlvs(b, 1, 1) THEN b
   ELSE LET rs == SplitTlvs(b, 1, 1) IN Flatten([i \in 1..Len(rs) |-> <<rs[i].t, Len(rs[i].v)>> \o MaskEvpnRoute(rs[i].t, rs[i].v)])
NormMpValue(t, v) ==
   IF t = 14 /\ Len(v) >= 5 /\ N16(v, 1) = 25 /\ v[3] = 70 /\ Len(v) >= 5 + v[4]
   THEN Take(v, 5 + v[4]) \o MaskEvpnList(Drop(v, 5 + v[4]))
   ELSE IF t = 15 /\ Len(v) >= 3 /\ N16(v, 1) = 25 /\ v[3] = 70 THEN Take(v, 3) \o MaskEvpnList(Drop(v, 3))
   ELSE v
NormMpUpdate(m) ==
   LET n == NormUpdate(m) IN [n EXCEPT !.attrs = [i \in 1..Len(n.attrs) |-> <<n.attrs[i][1], n.attrs[i][2], NormMpValue(n.attrs[i][1], n.attrs[i][3])>>]]
\* flow specification numeric operator octet: e (end of list) a (and) len(2 bits) 0 lt gt eq
OpBits(op) == CASE op = "=" -> 1 [] op = ">" -> 2 [] op = ">=" -> 3 [] op = "<" -> 4 [] op = "<=" -> 5
LenCode(n) == CASE n = 1 -> 0 [] n = 2 -> 16 [] n = 4 -> 32 [] n = 8 -> 48
EncOps(ops) == Flatten([i \in 1..Len(ops) |-> <<(IF i = Len(ops) THEN 128 ELSE 0) + LenCode(ops[i].len) + OpBits(ops[i].op)>> \o ops[i].v])
EncComp(c) == IF c[1] \in {1, 2} THEN <<c[1]>> \o EncPrefix(c[2]) ELSE <<c[1]>> \o EncOps(c[2])
EncRule(rule) ==
   LET b == Flatten([i \in 1..Len(rule) |-> EncComp(rule[i])]) IN
   (IF Len(b) < 240 THEN <<Len(b)>> ELSE U16(61440 + Len(b))) \o b

AfiSafi(fam) ==
   CASE fam = "ipv6" -> <<2, 1>> [] fam = "lu4" -> <<1, 4>> [] fam = "lu6" -> <<2, 4>> [] fam = "vpn4" -> <<1, 128>>
     [] fam = "vpn6" -> <<2, 128>> [] fam = "evpn" -> <<25, 70>> [] fam = "fs" -> <<1, 133>>
EncRoute(fam, r, reach) ==
   CASE fam = "ipv6" -> EncPrefix(r)
     [] fam \in {"lu4", "lu6"} -> EncLu(r, reach)
     [] fam \in {"vpn4", "vpn6"} -> EncVpn(r, reach)
     [] fam = "evpn" -> EncEvpn(r)
     [] fam = "fs" -> EncRule(r)
EncRoutes(fam, rs, reach) == Flatten([i \in 1..Len(rs) |-> EncRoute(fam, rs[i], reach)])
\* attribute value of MP_REACH_NLRI (type 14) / MP_UNREACH_NLRI (type 15)
EncMpReach(fam, nh, rs) == U16(AfiSafi(fam)[1]) \o <<AfiSafi(fam)[2], Len(nh)>> \o nh \o <<0>> \o EncRoutes(fam, rs, TRUE)
EncMpUnreach(fam, rs) == U16(AfiSafi(fam)[1]) \o <<AfiSafi(fam)[2]>> \o EncRoutes(fam, rs, FALSE)
\* the whole UPDATE: ORIGIN, AS_PATH (+ the MP attribute); an MP_UNREACH travels alone
MpBase == <<At(1, 0), At(2, <<Seg(2, <<<<0, 65001>>>>)>>)>>
EncMpUpdate(m) ==
   LET a == IF m.reach THEN EncAttrs(MpBase, TRUE, FALSE) \o AttrTLV(14, EncMpReach(m.fam, m.nh, m.routes), TRUE)
            ELSE AttrTLV(15, EncMpUnreach(m.fam, m.routes), TRUE)
   IN Message(2, U16(0) \o U16(Len(a)) \o a)

(***************************** structural walker (C08) *********************)
\* octets of the label stack at the start of a route body: 3-octet entries up to and including the first one with the
\* bottom-of-stack bit (or the withdrawal label 0x800000); negative when the stack runs past the end of the route
RECURSIVE StackOct(_, _)
StackOct(v, reach) ==     \* in an announcement 0x800000 is just label 524288 above the bottom of the stack; only a withdrawal may use it as a placeholder
   IF Len(v) < 3 THEN -100000
   ELSE IF v[3] % 2 = 1 \/ (~reach /\ Take(v, 3) = <<128, 0, 0>>) THEN 3 ELSE 3 + StackOct(Drop(v, 3), reach)
\* labeled / VPN routes: the length octet counts the bits of the label stack, the fixed part (RD) and the prefix
RECURSIVE WfLabeledList(_, _, _, _)
WfLabeledList(b, fixed, maxp, reach) ==
   IF b = <<>> THEN TRUE
   ELSE /\ Len(b) >= 1 + POctets(b[1])
        /\ LET so == StackOct(SubSeq(b, 2, 1 + POctets(b[1])), reach) IN so >= 3 /\ b[1] - 8 * so - fixed >= 0 /\ b[1] - 8 * so - fixed <= maxp
        /\ WfLabeledList(Drop(b, 1 + POctets(b[1])), fixed, maxp, reach)
WfLuList(b, maxp, reach) == WfLabeledList(b, 0, maxp, reach)
WfVpnList(b, maxp, reach) == WfLabeledList(b, 64, maxp, reach)
IpLenOk(n) == n \in {0, 32, 128}
WfEvpnRoute(t, v) ==
   CASE t = 1 -> Len(v) = 25
     [] t = 2 -> Len(v) >= 33 /\ v[23] = 48 /\ IpLenOk(v[30]) /\ (Len(v) - 30 - v[30] \div 8) \in {3, 6}
     [] t = 3 -> Len(v) >= 13 /\ IpLenOk(v[13]) /\ v[13] # 0 /\ Len(v) = 13 + v[13] \div 8
     [] t = 4 -> Len(v) >= 19 /\ IpLenOk(v[19]) /\ v[19] # 0 /\ Len(v) = 19 + v[19] \div 8
     \* IP prefix route (RFC 9136 3.1): prefix and gateway of one family, 34 or 58 octets, prefix length within the family
     [] t = 5 -> Len(v) \in {34, 58} /\ v[23] <= (IF Len(v) = 34 THEN 32 ELSE 128)
     [] OTHER -> TRUE
WfEvpnList(b) ==
   /\ WfTlvs(b, 1, 1)
   /\ \A i \in 1..Len(SplitTlvs(b, 1, 1)) : WfEvpnRoute(SplitTlvs(b, 1, 1)[i].t, SplitTlvs(b, 1, 1)[i].v)
RECURSIVE WfOps(_)
WfOps(b) ==      \* numeric operator list: ends exactly at an operator with the end-of-list bit
   /\ Len(b) >= 1
   /\ LET n == CASE (b[1] \div 16) % 4 = 0 -> 1 [] (b[1] \div 16) % 4 = 1 -> 2 [] (b[1] \div 16) % 4 = 2 -> 4 [] OTHER -> 8 IN
      /\ Len(b) >= 1 + n
      /\ IF b[1] >= 128 THEN TRUE ELSE WfOps(Drop(b, 1 + n))
RECURSIVE OpsLen(_)
OpsLen(b) == LET n == CASE (b[1] \div 16) % 4 = 0 -> 1 [] (b[1] \div 16) % 4 = 1 -> 2 [] (b[1] \div 16) % 4 = 2 -> 4 [] OTHER -> 8
             IN IF b[1] >= 128 THEN 1 + n ELSE 1 + n + OpsLen(Drop(b, 1 + n))
RECURSIVE WfComps(_, _)
WfComps(b, last) ==   \* components in strictly increasing type order, each well-formed, summing exactly to the rule
   IF b = <<>> THEN TRUE
   ELSE /\ b[1] > last /\ Len(b) >= 2
        /\ IF b[1] \in {1, 2}
           THEN b[2] <= 32 /\ Len(b) >= 2 + POctets(b[2]) /\ WfComps(Drop(b, 2 + POctets(b[2])), b[1])
           ELSE WfOps(Tail(b)) /\ WfComps(Drop(b, 1 + OpsLen(Tail(b))), b[1])
RECURSIVE WfFsList(_)
WfFsList(b) ==
   IF b = <<>> THEN TRUE
   ELSE IF b[1] >= 240
        THEN /\ Len(b) >= 2 /\ LET n == (b[1] - 240) * 256 + b[2] IN Len(b) >= 2 + n /\ n >= 240 /\ WfComps(SubSeq(b, 3, 2 + n), 0) /\ WfFsList(Drop(b, 2 + n))
        ELSE /\ Len(b) >= 1 + b[1] /\ WfComps(SubSeq(b, 2, 1 + b[1]), 0) /\ WfFsList(Drop(b, 1 + b[1]))
\* IPv6 flow specification (RFC 8956 3.1): a prefix component is <length, offset, pattern> and the pattern occupies
\* ceil((length - offset) / 8) octets; the other components are as in IPv4 (plus type 13, flow label)
RECURSIVE WfComps6(_, _)
WfComps6(b, last) ==
   IF b = <<>> THEN TRUE
   ELSE /\ b[1] > last /\ Len(b) >= 2
        /\ IF b[1] \in {1, 2}
           THEN /\ Len(b) >= 3 /\ b[2] <= 128 /\ b[3] <= b[2] /\ Len(b) >= 3 + POctets(b[2] - b[3])
                /\ WfComps6(Drop(b, 3 + POctets(b[2] - b[3])), b[1])
           ELSE WfOps(Tail(b)) /\ WfComps6(Drop(b, 1 + OpsLen(Tail(b))), b[1])
RECURSIVE WfFs6List(_)
WfFs6List(b) ==
   IF b = <<>> THEN TRUE
   ELSE IF b[1] >= 240
        THEN /\ Len(b) >= 2 /\ LET n == (b[1] - 240) * 256 + b[2] IN Len(b) >= 2 + n /\ n >= 240 /\ WfComps6(SubSeq(b, 3, 2 + n), 0) /\ WfFs6List(Drop(b, 2 + n))
        ELSE /\ Len(b) >= 1 + b[1] /\ WfComps6(SubSeq(b, 2, 1 + b[1]), 0) /\ WfFs6List(Drop(b, 1 + b[1]))
WfNlri(afi, safi, b, reach) ==
   CASE afi = 2 /\ safi = 1 -> WfPrefixList(b, 128)
     [] afi = 1 /\ safi = 1 -> WfPrefixList(b, 32)
     [] afi = 1 /\ safi = 4 -> WfLuList(b, 32, reach)
     [] afi = 2 /\ safi = 4 -> WfLuList(b, 128, reach)
     [] afi = 1 /\ safi = 128 -> WfVpnList(b, 32, reach)
     [] afi = 2 /\ safi = 128 -> WfVpnList(b, 128, reach)
     [] afi = 25 /\ safi = 70 -> WfEvpnList(b)
     [] afi = 1 /\ safi = 133 -> WfFsList(b)
     [] afi = 2 /\ safi = 133 -> WfFs6List(b)
     [] afi \in {1, 2} /\ safi = 73 -> WfSrteList(b)
     [] OTHER -> TRUE
NhLenOk(afi, safi, n) ==
   CASE afi = 2 /\ safi = 1 -> n \in {16, 32} [] afi = 1 /\ safi = 4 -> n \in {4} [] afi = 2 /\ safi = 4 -> n \in {16, 32}
     [] afi = 1 /\ safi = 128 -> n \in {12, 24} [] afi = 2 /\ safi = 128 -> n \in {24, 48} [] afi = 25 /\ safi = 70 -> n \in {4, 16}
     [] afi = 1 /\ safi = 133 -> n \in {0, 4} [] afi = 2 /\ safi = 133 -> n \in {0, 16} [] safi = 73 -> n \in {4, 16} [] OTHER -> TRUE
WfMpAttrVal(t, v, asn4) ==
   CASE t = 14 -> /\ Len(v) >= 5 /\ Len(v) >= 5 + v[4] /\ NhLenOk(N16(v, 1), v[3], v[4])
                  /\ WfNlri(N16(v, 1), v[3], Drop(v, 5 + v[4]), TRUE)
     [] t = 15 -> Len(v) >= 3 /\ WfNlri(N16(v, 1), v[3], Drop(v, 3), FALSE)
     [] t = 22 -> WfPmsi(v)
     [] t = 23 -> WfTunnelEncaps(v)
     [] OTHER -> WfAttrVal(t, v, asn4)
WfUpdateMp(m, asn4) == WfUpdateWith(m, asn4, WfMpAttrVal)

(***************************** value pools *********************************)
A6a == <<32, 1, 13, 184, 171, 205, 18, 52, 86, 120, 154, 188, 222, 240, 15, 1>>
A6f == [i \in 1..16 |-> 255]
Pfx6(l, a) == Pfx(l, a)
AllLen6 == {Pfx6(l, a) : l \in 0..128, a \in {A6a, A6f}}
P6v6 == <<Pfx6(0, A6a), Pfx6(1, A6f), Pfx6(60, A6a), Pfx6(64, A6a), Pfx6(127, A6f), Pfx6(128, A6a)>>
P4s == <<Pfx(0, <<0, 0, 0, 0>>), Pfx(1, <<128, 0, 0, 0>>), Pfx(17, <<10, 1, 128, 0>>), Pfx(24, <<192, 168, 7, 0>>), Pfx(32, <<9, 9, 9, 9>>)>>
Labels == {0, 1, 3, 15, 16, 524287, 524288, 524289, 1048575}
Nh4 == <<10, 0, 0, 9>>
Nh6 == <<32, 1, 13, 184, 0, 0, 0, 0, 0, 0, 0, 0, 0, 0, 0, 9>>
Ll6 == <<254, 128, 0, 0, 0, 0, 0, 0, 0, 0, 0, 0, 0, 0, 0, 1>>
Rds == {<<0, <<0, 1, 0, 0, 0, 1>>>>, <<0, <<255, 255, 255, 255, 255, 255>>>>, <<0, <<0, 0, 0, 0, 0, 0>>>>,
        <<1, <<10, 1, 2, 3, 0, 7>>>>, <<1, <<255, 255, 255, 255, 255, 255>>>>,
        <<2, <<0, 1, 0, 0, 0, 2>>>>, <<2, <<255, 255, 255, 255, 255, 255>>>>}
Mp(fam, reach, nh, rs) == [kind |-> "mp", fam |-> fam, reach |-> reach, nh |-> nh, routes |-> rs]
Lu(ls, p) == [labels |-> ls, p |-> p]
Vpn(l, rd, p) == [labels |-> <<l>>, rd |-> rd, p |-> p]
VpnS(ls, rd, p) == [labels |-> ls, rd |-> rd, p |-> p]
Ipv6Pool ==
   {Mp("ipv6", TRUE, nh, <<p>>) : nh \in {Nh6, Nh6 \o Ll6}, p \in AllLen6}
   \* (speakers that peer over link-local addresses put the same address into both next-hop slots)
   \cup {Mp("ipv6", TRUE, nh, <<P6v6[i]>>) : nh \in {Nh6 \o Nh6, Ll6 \o Ll6}, i \in {1, 3, 6}}
   \cup {Mp("ipv6", FALSE, <<>>, <<p>>) : p \in AllLen6}
   \cup {Mp("ipv6", r, IF r THEN Nh6 ELSE <<>>, <<P6v6[i], P6v6[j]>>) : r \in BOOLEAN, i, j \in 1..6}
   \cup {Mp("ipv6", TRUE, Nh6, <<P6v6[i], P6v6[j], P6v6[k]>>) : i, j, k \in {1, 3, 6}}
LuPool(fam) ==
   LET ps == IF fam = "lu4" THEN P4s ELSE P6v6
       nh == IF fam = "lu4" THEN Nh4 ELSE Nh6
       all == IF fam = "lu4" THEN {Pfx(l, <<10, 77, 203, 13>>) : l \in 0..32} ELSE {Pfx6(l, A6a) : l \in {0, 1, 7, 8, 9, 59, 60, 63, 64, 65, 120, 127, 128}}
   IN {Mp(fam, TRUE, nh, <<Lu(<<l>>, p)>>) : l \in Labels, p \in all}
      \cup {Mp(fam, TRUE, nh, <<Lu(<<l1, l2>>, ps[i])>>) : l1, l2 \in {0, 16, 524288, 1048575}, i \in 1..Len(ps)}
      \* the reserved labels 1..3 and 7 above the bottom of a stack
      \cup {Mp(fam, TRUE, nh, <<Lu(<<l1, 16>>, ps[1])>>) : l1 \in {1, 2, 3, 7, 13, 14, 15}} \cup {Mp(fam, TRUE, nh, <<Lu(<<16, 3, 17>>, ps[2])>>)}
      \* withdrawals: yabgp does not decode MP_UNREACH of the labeled-unicast families at all (and has no encoder for IPv6),
      \* so they are outside "every family both encoded and decoded"
      \cup {Mp(fam, TRUE, nh, <<Lu(<<16>>, ps[i]), Lu(<<l>>, ps[j])>>) : l \in {3, 1048575}, i, j \in 1..Len(ps)}
VpnPool(fam) ==
   LET ps == IF fam = "vpn4" THEN P4s ELSE P6v6
       nh == IF fam = "vpn4" THEN Zeros(8) \o Nh4 ELSE Zeros(8) \o Nh6
       all == IF fam = "vpn4" THEN {Pfx(l, <<10, 77, 203, 13>>) : l \in 0..32} ELSE {Pfx6(l, A6a) : l \in {0, 1, 7, 8, 9, 59, 60, 63, 64, 65, 120, 127, 128}}
   IN {Mp(fam, TRUE, nh, <<Vpn(l, <<0, <<0, 100, 0, 0, 0, 100>>>>, p)>>) : l \in Labels, p \in all}
      \cup {Mp(fam, TRUE, nh, <<Vpn(16, rd, ps[i])>>) : rd \in Rds, i \in 1..Len(ps)}
      \* next hops of the other address family (RFC 8950: VPNv4 over an IPv6 next hop)
      \cup (IF fam = "vpn4" THEN {Mp(fam, TRUE, Zeros(8) \o Nh6, <<Vpn(16, <<0, <<0, 100, 0, 0, 0, 100>>>>, ps[i])>>) : i \in 1..Len(ps)} ELSE {})
      \* label stacks of two and three entries, alone and followed by another route
      \cup {Mp(fam, TRUE, nh, <<VpnS(ls, <<0, <<0, 100, 0, 0, 0, 100>>>>, ps[i])>>) : ls \in {<<16, 17>>, <<1048575, 3>>, <<524288, 100>>, <<100, 524288>>, <<100, 200, 300>>, <<16, 524288, 17>>}, i \in {j \in 1..Len(ps) : ps[j].l <= 96}}
      \cup {Mp(fam, TRUE, nh, <<VpnS(<<16, 17>>, <<0, <<0, 100, 0, 0, 0, 100>>>>, ps[i]), Vpn(3, <<2, <<0, 1, 0, 0, 0, 2>>>>, ps[j])>>) : i, j \in 1..Len(ps)}
      \cup {Mp(fam, FALSE, <<>>, <<Vpn(16, rd, p)>>) : rd \in {<<0, <<0, 100, 0, 0, 0, 100>>>>, <<1, <<10, 1, 2, 3, 0, 7>>>>}, p \in all}
      \cup {Mp(fam, r, IF r THEN nh ELSE <<>>, <<Vpn(16, <<0, <<0, 100, 0, 0, 0, 100>>>>, ps[i]), Vpn(3, <<2, <<0, 1, 0, 0, 0, 2>>>>, ps[j])>>) : r \in BOOLEAN, i, j \in 1..Len(ps)}
Mac1 == <<0, 17, 34, 51, 68, 85>>
Esis == {Zeros(10), <<0, 1, 2, 3, 4, 5, 6, 7, 8, 9>>, <<0, 255, 255, 255, 255, 255, 255, 255, 255, 255>>,
         <<1>> \o Mac1 \o <<0, 7, 0>>, <<1>> \o Mac1 \o <<255, 255, 0>>, <<2>> \o Mac1 \o <<128, 0, 0>>,
         <<3>> \o Mac1 \o <<0, 0, 1>>, <<3>> \o Mac1 \o <<1, 0, 0>>, <<3>> \o Mac1 \o <<255, 255, 255>>,
         <<4, 10, 0, 0, 1, 0, 0, 0, 5, 0>>, <<4, 255, 255, 255, 255, 255, 255, 255, 255, 0>>,
         <<5, 0, 1, 0, 0, 0, 0, 0, 9, 0>>, <<5, 255, 255, 255, 255, 255, 255, 255, 255, 0>>}
Ips46 == {<<>>, <<192, 168, 0, 1>>, Nh6}
Rd0 == <<1, <<172, 16, 0, 1, 23, 16>>>>
EvpnRoutes(lazy) ==
   {<<1, [rd |-> rd, esi |-> e, tag |-> t, label |-> l]>> : rd \in {Rd0, <<0, <<0, 1, 0, 0, 0, 1>>>>}, e \in Esis, t \in {<<0, 0>>, <<0, 100>>, <<65535, 65535>>}, l \in {10, 1048575}}
   \cup {<<2, [rd |-> Rd0, esi |-> e, tag |-> t, mac |-> Mac1, ip |-> ip, labels |-> ls]>> :
            e \in {Zeros(10), <<3>> \o Mac1 \o <<1, 0, 0>>, <<1>> \o Mac1 \o <<0, 7, 0>>}, t \in {<<0, 108>>, <<65535, 65535>>}, ip \in Ips46, ls \in {<<16>>, <<16, 17>>, <<1048575>>}}
   \* label 0 (explicit null) alone and as the last label of a stack
   \cup {<<1, [rd |-> Rd0, esi |-> Zeros(10), tag |-> <<0, 100>>, label |-> 0]>>}
   \cup {<<2, [rd |-> Rd0, esi |-> Zeros(10), tag |-> <<0, 108>>, mac |-> Mac1, ip |-> ip, labels |-> ls]>> : ip \in Ips46, ls \in {<<0>>, <<16, 0>>, <<0, 0>>}}
   \cup {<<3, [rd |-> rd, tag |-> t, ip |-> ip]>> : rd \in {Rd0, <<2, <<0, 1, 0, 0, 0, 2>>>>}, t \in {<<0, 0>>, <<0, 100>>}, ip \in Ips46 \ {<<>>}}
   \cup {<<4, [rd |-> Rd0, esi |-> e, ip |-> ip]>> : e \in Esis, ip \in Ips46 \ {<<>>}}
EvpnPool ==
   {Mp("evpn", TRUE, Nh4, <<e>>) : e \in EvpnRoutes(0)}
   \cup {Mp("evpn", FALSE, <<>>, <<e>>) : e \in {x \in EvpnRoutes(0) : x[1] \in {3, 4}}}
   \cup {Mp("evpn", TRUE, Nh4, <<a, b>>) : a, b \in {x \in EvpnRoutes(0) : (x[1] = 1 /\ x[2].esi = Zeros(10) /\ x[2].tag = <<0, 100>> /\ x[2].label = 10 /\ x[2].rd = Rd0)
                                                    \/ (x[1] = 1 /\ x[2].label = 0)
                                                    \/ (x[1] = 2 /\ x[2].esi = Zeros(10) /\ x[2].tag = <<0, 108>> /\ x[2].labels \in {<<16>>, <<0>>, <<16, 0>>} /\ x[2].ip # Nh6)
                                                    \/ (x[1] = 3 /\ x[2].rd = Rd0 /\ x[2].tag = <<0, 100>>)
                                                    \/ (x[1] = 4 /\ x[2].esi = Zeros(10))}}
FsOp(op, n, v) == [op |-> op, len |-> n, v |-> v]
OpVals == {FsOp(o, 1, <<v>>) : o \in {"=", "<", ">", "<=", ">="}, v \in {0, 6, 255}}
          \cup {FsOp(o, 2, <<a, b>>) : o \in {"=", "<", ">", "<=", ">="}, a \in {1, 255}, b \in {0, 255}}
          \cup {FsOp(o, 4, <<a, 0, 0, b>>) : o \in {"=", ">="}, a \in {1, 127}, b \in {0, 255}}
FsTypes == {3, 4, 5, 6, 7, 8, 10, 11}
FsRules(lazy) ==
   {<<<<1, p>>>> : p \in {Pfx(l, <<10, 77, 203, 13>>) : l \in 0..32}} \cup {<<<<2, p>>>> : p \in {P4s[i] : i \in 1..5}}
   \cup {<<<<1, P4s[4]>>, <<2, P4s[3]>>>>}
   \cup {<<<<t, <<o>>>>>> : t \in FsTypes, o \in OpVals}
   \cup {<<<<t, <<o1, o2>>>>>> : t \in {3, 5}, o1, o2 \in {FsOp("=", 1, <<6>>), FsOp(">=", 2, <<1, 0>>), FsOp("<", 1, <<255>>)}}
   \* rules of 240 octets and more (two-octet length 0xfnnn): 79, 80 and 100 two-octet operators
   \cup {<<<<5, [i \in 1..n |-> FsOp("=", 2, <<1, i>>)]>>>> : n \in {79, 80, 100}}
   \cup {<<<<1, P4s[4]>>, <<3, <<FsOp("=", 1, <<6>>)>>>>, <<5, <<FsOp("=", 2, <<31, 144>>), FsOp("=", 1, <<80>>)>>>>, <<11, <<FsOp("=", 1, <<46>>)>>>>>>}
\* IPv6 flow specification rules: prefix components <<t, <<length, offset, address (16 octets)>>>>, the rest as for IPv4
Pattern6(l, off, a) ==      \* the (l - off) bits after the offset, left-aligned (offsets inside an octet only occur with a zero address here)
   IF off % 8 = 0 THEN SubSeq([i \in 1..16 |-> MaskOct(a[i], l - 8 * (i - 1))], off \div 8 + 1, POctets(l)) ELSE Zeros(POctets(l - off))
EncComp6(c) == IF c[1] \in {1, 2} THEN <<c[1], c[2][1], c[2][2]>> \o Pattern6(c[2][1], c[2][2], c[2][3]) ELSE <<c[1]>> \o EncOps(c[2])
EncRule6(rule) ==
   LET b == Flatten([i \in 1..Len(rule) |-> EncComp6(rule[i])]) IN
   (IF Len(b) < 240 THEN <<Len(b)>> ELSE U16(61440 + Len(b))) \o b
Pfx6s == {<<0, 0, A6a>>, <<1, 0, A6a>>, <<64, 0, A6a>>, <<128, 0, A6a>>, <<64, 32, A6a>>, <<128, 120, A6a>>, <<48, 40, A6a>>, <<60, 8, A6a>>,
          <<65, 7, Zeros(16)>>, <<10, 3, Zeros(16)>>, <<128, 1, Zeros(16)>>}
Fs6Rules(lazy) ==
   {<<<<t, p>>>> : t \in {1, 2}, p \in Pfx6s} \cup {<<<<1, <<64, 0, A6a>>>>, <<2, <<48, 40, A6a>>>>>>}
   \cup {<<<<t, <<o>>>>>> : t \in 3..13, o \in OpVals}
   \cup {<<<<t, <<o1, o2>>>>>> : t \in {3, 13}, o1, o2 \in {FsOp("=", 1, <<6>>), FsOp(">=", 2, <<1, 0>>), FsOp("<", 1, <<255>>)}}
   \cup {<<<<5, [i \in 1..n |-> FsOp("=", 2, <<1, i>>)]>>>> : n \in {79, 80, 100}}
   \cup {<<<<1, <<64, 0, A6a>>>>, <<3, <<FsOp("=", 1, <<6>>)>>>>, <<5, <<FsOp("=", 2, <<31, 144>>), FsOp("=", 1, <<80>>)>>>>, <<13, <<FsOp("=", 4, <<0, 1, 2, 3>>)>>>>>>}
\* IPv4 unicast carried in the multiprotocol attributes (AFI 1 / SAFI 1): legal (RFC 4760), decoded by the agent, never emitted
\* by it; every encoding variant of C09 (extended length, non-zero trailing bits, add-path identifiers)
Mp4Vecs(lazy) ==
   {[kind |-> "mpdec", asn4 |-> TRUE, var |-> v, u |-> [reach |-> r, ps |-> ps]] : r \in BOOLEAN, v \in Variants,
        ps \in {<<P6[i]>> : i \in 1..6} \cup {<<P6[4], P6[2]>>, <<P6[2], P6[4], P6[6]>>, <<P6[5], P6[4], P6[1], P6[4]>>}}
\* flowspec operators whose value is written in 8 octets (length code 3: legal, RFC 8955 4.2.1.1; the agent never emits it)
FsWide == {<<<<5, <<FsOp("=", 8, <<0, 0, 0, 0, 0, 0, 0, 80>>)>>>>>>, <<<<3, <<FsOp("=", 8, <<0, 0, 0, 0, 0, 0, 0, 6>>)>>>>, <<5, <<FsOp(">=", 8, <<0, 0, 0, 0, 0, 0, 4, 0>>), FsOp("<", 2, <<31, 144>>)>>>>>>,
           <<<<1, Pfx(24, <<10, 1, 2, 0>>)>>, <<6, <<FsOp("=", 8, <<0, 0, 0, 0, 0, 0, 1, 187>>), FsOp("=", 1, <<80>>)>>>>>>}
FsDecVecs(lazy) == {[kind |-> "fsdec", asn4 |-> TRUE, var |-> Canon, u |-> [reach |-> r, rules |-> <<x>>]] : r \in BOOLEAN, x \in FsWide}
                   \cup {[kind |-> "fsdec", asn4 |-> TRUE, var |-> Canon, u |-> [reach |-> TRUE, rules |-> <<x, <<<<3, <<FsOp("=", 1, <<6>>)>>>>>>>>]] : x \in FsWide}
FsDecBytes(v) ==
   LET nl == Flatten([i \in 1..Len(v.u.rules) |-> EncRule(v.u.rules[i])])
       a == IF v.u.reach THEN EncAttrs(MpBase, TRUE, FALSE) \o AttrTLV(14, U16(1) \o <<133, 0, 0>> \o nl, TRUE)
            ELSE AttrTLV(15, U16(1) \o <<133>> \o nl, TRUE)
   IN Message(2, U16(0) \o U16(Len(a)) \o a)
Mp4Bytes(v) ==
   LET nl == EncPfx(v.u.ps, v.var.dirty, v.var.pathids)
       a == IF v.u.reach THEN EncAttrs(MpBase, TRUE, FALSE) \o AttrTLV(14, U16(1) \o <<1, 4>> \o Nh4 \o <<0>> \o nl, v.var.ext)
            ELSE AttrTLV(15, U16(1) \o <<1>> \o nl, v.var.ext)
   IN Message(2, U16(0) \o U16(Len(a)) \o a)
\* vectors of the construct-only families (C08): [kind "enc", sub, u]
EncVecs(lazy) ==
   {[kind |-> "enc", sub |-> "srpol", u |-> p] : p \in PolicyPool}
   \cup {[kind |-> "enc", sub |-> "pmsi", u |-> p] : p \in PmsiPool}
   \cup {[kind |-> "enc", sub |-> "srte", u |-> n] : n \in SrtePool}
   \* IPv6 unicast whose request names the link-local next hop with an empty value ("" / null, as a templating client
   \* writes it when there is none): one global next hop of 16 octets, or no message
   \cup {[kind |-> "enc", sub |-> "v6ll", u |-> [ll |-> ll, ps |-> ps]] : ll \in {"empty", "null", "absent"},
            ps \in {<<P6v6[1]>>, <<P6v6[6]>>, <<P6v6[1], P6v6[3], P6v6[6]>>, <<Pfx6(128, A6a)>>, <<Pfx6(64, A6a), Pfx6(0, A6a)>>}}
   \* EVPN MAC/IP routes whose MAC address is written without leading zeros / in upper case (the octets are what the text means)
   \cup {[kind |-> "enc", sub |-> "evpnmac", u |-> [mac |-> m, style |-> st, reach |-> r]] : r \in BOOLEAN, st \in {"short", "upper", "plain"},
            m \in {<<0, 1, 2, 10, 11, 12>>, <<10, 11, 204, 221, 238, 255>>, <<0, 0, 94, 0, 1, 35>>, <<8, 0, 39, 222, 173, 1>>}}
   \* EVPN IP prefix routes (type 5; the agent constructs them, C07 does not list them): IPv4 / IPv6 prefix, gateway of the
   \* same family or left out of the request, announced and withdrawn
   \cup {e \in {[kind |-> "enc", sub |-> "evpn5", u |-> [reach |-> r, pa |-> p[1], pl |-> p[2], gw |-> g, label |-> l]] :
            r \in BOOLEAN, l \in {0, 16, 1048575},
            p \in {<<<<10, 1, 0, 0>>, 16>>, <<<<0, 0, 0, 0>>, 0>>, <<<<10, 1, 2, 3>>, 32>>, <<A6a, 64>>, <<A6a, 128>>, <<Zeros(16), 0>>},
            g \in {<<>>, <<10, 0, 0, 1>>, <<0, 0, 0, 0>>, Nh6, Zeros(16)}} : e.u.gw = <<>> \/ Len(e.u.gw) = Len(e.u.pa)}
   \* PMSI tunnel attribute next to an EVPN inclusive-multicast route and an Encapsulation extended community (the label
   \* field then holds a 24-bit VNI for VXLAN 8 / NVGRE 9; for the other tunnel types construction fails or stays valid)
   \cup {[kind |-> "enc", sub |-> "pmsievpn", u |-> [p |-> p, encap |-> n, form |-> f]] :
            p \in {x \in PmsiPool : x.leaf = 0 /\ x.label = 1234 /\ ((x.ttype = 6 /\ Len(x.id) = 4) \/ (x.ttype = 0 /\ x.id = <<>>))},
            n \in {0, 1, 7, 8, 9, 10, 11, 13, 15, 255}, f \in {"list", "text"}}
   \cup {[kind |-> "enc", sub |-> "fs6", u |-> [nh |-> nh, rules |-> <<r>>]] : nh \in {<<>>}, r \in Fs6Rules(0)}
   \cup {[kind |-> "enc", sub |-> "fs6", u |-> [nh |-> Nh6, rules |-> <<r1, r2>>]] : r1, r2 \in {<<<<1, <<64, 0, A6a>>>>>>, <<<<3, <<FsOp("=", 1, <<6>>)>>>>>>}}
\* values for which the RFCs define an encoding (the others are in the pool to see that construction fails or stays valid)
ValidEnc(v) ==
   CASE v.sub = "pmsievpn" -> TRUE
     [] v.sub = "evpn5" -> v.u.gw = <<>> \/ Len(v.u.gw) = Len(v.u.pa)
     [] v.sub = "pmsi" -> (v.u.ttype = 0 => v.u.id = <<>>) /\ (v.u.ttype = 6 => v.u.id # <<>>) /\ (v.u.ttype \notin {0, 6} => v.u.id = <<>>)
     [] v.sub = "srte" -> Len(v.u.nh) \in {4, 16}
     [] v.sub = "srpol" -> \A i \in 1..Len(v.u.name) : v.u.name[i] < 128
     [] OTHER -> TRUE
EncBytes(v) ==
   LET withAttr(t, val, ext) == LET a == EncAttrs(Base(TRUE), TRUE, FALSE) \o AttrTLV(t, val, ext)
                                IN Message(2, U16(0) \o U16(Len(a)) \o a \o EncPrefix(P6[6]))
       mp(val) == LET a == EncAttrs(MpBase, TRUE, FALSE) \o AttrTLV(14, val, TRUE) IN Message(2, U16(0) \o U16(Len(a)) \o a)
   IN CASE v.sub = "srpol" -> withAttr(23, EncTunnelEncaps(v.u), TRUE)
        [] v.sub = "pmsi" -> withAttr(22, EncPmsi(v.u), FALSE)
        [] v.sub = "v6ll" ->
              LET a == EncAttrs(MpBase, TRUE, FALSE) \o AttrTLV(14, EncMpReach("ipv6", Nh6, v.u.ps), TRUE)
              IN Message(2, U16(0) \o U16(Len(a)) \o a)
        [] v.sub = "evpnmac" ->
              LET rt == <<2, [rd |-> Rd0, esi |-> Zeros(10), tag |-> <<0, 108>>, mac |-> v.u.mac, ip |-> <<>>, labels |-> <<16>>]>>
                  a == IF v.u.reach THEN EncAttrs(MpBase, TRUE, FALSE) \o AttrTLV(14, EncMpReach("evpn", Nh4, <<rt>>), TRUE)
                       ELSE AttrTLV(15, EncMpUnreach("evpn", <<rt>>), TRUE)
              IN Message(2, U16(0) \o U16(Len(a)) \o a)
        [] v.sub = "evpn5" ->
              LET gw == IF v.u.gw = <<>> THEN Zeros(Len(v.u.pa)) ELSE v.u.gw
                  rt == EncRd(Rd0) \o Zeros(10) \o U32hl(<<0, 100>>) \o <<v.u.pl>> \o v.u.pa \o gw \o EncLabel(v.u.label, TRUE)
                  nl == <<5, Len(rt)>> \o rt
                  a == IF v.u.reach THEN EncAttrs(MpBase, TRUE, FALSE) \o AttrTLV(14, U16(25) \o <<70, 4>> \o Nh4 \o <<0>> \o nl, TRUE)
                       ELSE AttrTLV(15, U16(25) \o <<70>> \o nl, TRUE)
              IN Message(2, U16(0) \o U16(Len(a)) \o a)
        [] v.sub = "pmsievpn" ->
              LET rt == <<3, [rd |-> Rd0, tag |-> <<0, 0>>, ip |-> <<192, 168, 0, 1>>]>>
                  lab == IF v.u.form = "list" /\ v.u.encap \in {8, 9} THEN U24(v.u.p.label) ELSE U24(v.u.p.label * 16)
                  a == EncAttrs(MpBase, TRUE, FALSE) \o AttrTLV(14, EncMpReach("evpn", Nh4, <<rt>>), TRUE)
                       \o AttrTLV(16, <<3, 12, 0, 0, 0, 0>> \o U16(v.u.encap), FALSE) \o AttrTLV(22, <<v.u.p.leaf, v.u.p.ttype>> \o lab \o v.u.p.id, FALSE)
              IN Message(2, U16(0) \o U16(Len(a)) \o a)
        [] v.sub = "srte" -> mp(U16(v.u.afi) \o <<73, Len(v.u.nh)>> \o v.u.nh \o <<0>> \o EncSrteNlri(v.u))
        [] v.sub = "fs6" -> mp(U16(2) \o <<133, Len(v.u.nh)>> \o v.u.nh \o <<0>> \o Flatten([i \in 1..Len(v.u.rules) |-> EncRule6(v.u.rules[i])]))
FsPool ==
   {Mp("fs", TRUE, nh, <<r>>) : nh \in {<<>>}, r \in FsRules(0)}
   \cup {Mp("fs", FALSE, <<>>, <<r>>) : r \in FsRules(0)}
   \* rules of exactly 237..243 octets (the length form switches at 240): a prefix component of 3..6 octets and a port list
   \cup {Mp("fs", r, <<>>, <<<<<<1, p>>, <<5, [i \in 1..n |-> FsOp("=", 2, <<1, i>>)]>>>>>>) : r \in BOOLEAN, n \in {77, 78, 79},
              p \in {Pfx(8, <<10, 0, 0, 0>>), Pfx(16, <<10, 1, 0, 0>>), Pfx(24, <<10, 1, 2, 0>>), Pfx(32, <<10, 1, 2, 3>>)}}
   \cup {Mp("fs", TRUE, <<>>, <<<<<<1, Pfx(24, <<10, 1, 2, 0>>)>>, <<5, [i \in 1..78 |-> FsOp("=", 2, <<1, i>>)]>>>>, <<<<3, <<FsOp("=", 1, <<6>>)>>>>>>>>)}
   \* several rules per attribute, announced and withdrawn, short rules and rules of 240 octets and more in every order
   \cup {Mp("fs", r, <<>>, <<a, b>>) : r \in BOOLEAN, a, b \in {<<<<1, P4s[4]>>>>, <<<<2, P4s[1]>>>>, <<<<3, <<FsOp("=", 1, <<6>>)>>>>>>, <<<<5, <<FsOp(">=", 2, <<1, 0>>), FsOp("<", 1, <<255>>)>>>>>>,
                                                               <<<<5, [i \in 1..80 |-> FsOp("=", 2, <<1, i>>)]>>>>, <<<<6, [i \in 1..100 |-> FsOp("=", 2, <<2, i>>)]>>>>}}
   \cup {Mp("fs", r, <<>>, <<a, b, c>>) : r \in BOOLEAN, a, b, c \in {<<<<1, P4s[4]>>, <<3, <<FsOp("=", 1, <<6>>)>>>>>>, <<<<5, [i \in 1..80 |-> FsOp("=", 2, <<1, i>>)]>>>>}}
MpPool(fam) ==
   CASE fam = "ipv6" -> Ipv6Pool [] fam \in {"lu4", "lu6"} -> LuPool(fam) [] fam \in {"vpn4", "vpn6"} -> VpnPool(fam)
     [] fam = "evpn" -> EvpnPool [] fam = "fs" -> FsPool
=============================================================================
