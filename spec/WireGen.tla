------------------------------- MODULE WireGen -------------------------------
(***************************************************************************)
(* Vector generator (spec -> code, DESIGN.md 2.4): TLC enumerates the      *)
(* bounded value pools of the wire modules, checks the format-level        *)
(* theorems on the specification itself (the reference encoding of every   *)
(* value in every legal variant is accepted by the structural walker), and *)
(* prints every value with its reference encoding as a JSON test vector    *)
(* for the real yabgp codec.                                               *)
(***************************************************************************)
EXTENDS WireMp, WireOpen, WireComm, TLCExt, Json

CONSTANTS FAMILY      \* which vector family this run enumerates: "upd", "updvar", "cor", "open", "openrt", "notif", "rr", "ka"

VARIABLE vec
UpdVecs == {[kind |-> "upd", asn4 |-> TRUE, var |-> Canon, u |-> u] : u \in UpdatePool(TRUE)}
           \cup {[kind |-> "upd", asn4 |-> FALSE, var |-> Canon, u |-> u] : u \in UpdatePool(FALSE)}
Many == {x \in UpdatePool(TRUE) : Len(x.attrs) >= 4}
Many2 == {x \in UpdatePool(FALSE) : Len(x.attrs) >= 4}
VarVecs == {[kind |-> "updvar", asn4 |-> TRUE, var |-> v, u |-> u] : v \in Variants \ {Canon}, u \in UpdatePool(TRUE)}
           \cup {[kind |-> "updvar", asn4 |-> FALSE, var |-> v, u |-> u] : v \in Variants \ {Canon}, u \in UpdatePool(FALSE)}
           \cup {[kind |-> "updvar", asn4 |-> FALSE, var |-> v, u |-> u] : v \in {Canon, [ext |-> TRUE, dirty |-> FALSE, pathids |-> FALSE]}, u \in DecodeOnly}
           \cup UNION {{[kind |-> "updvar", asn4 |-> FALSE, var |-> Canon, u |-> [u EXCEPT !.attrs = ordr]] : ordr \in Orders(u.attrs)} : u \in DecodeOnly}
           \cup UNION {{[kind |-> "updvar", asn4 |-> FALSE, var |-> Canon, u |-> [u EXCEPT !.attrs = ordr]] : ordr \in {Reverse(u.attrs), Rotate(u.attrs)}} : u \in Many2}
           \cup {[kind |-> "updvar", asn4 |-> TRUE, var |-> Canon, u |-> [u EXCEPT !.attrs = Reverse(u.attrs)]] : u \in Many}
           \cup {[kind |-> "updvar", asn4 |-> TRUE, var |-> Canon, u |-> [u EXCEPT !.attrs = Rotate(u.attrs)]] : u \in Many}
CorVecs == {[kind |-> "cor", asn4 |-> TRUE, var |-> Canon, u |-> c] : c \in Corruptions}
\* C15: per list kind, single elements of every width the format allows (element = its octets)
El(kind, o) == [kind |-> "elem", list |-> kind, o |-> o]
ElemVecs ==
   {El("v4prefix", EncPrefix(p)) : p \in AllLen4} \cup {El("v6prefix", EncPrefix(p)) : p \in AllLen6}
   \cup {El("lu4", EncLu(m.routes[1], TRUE)) : m \in {x \in LuPool("lu4") : x.reach /\ Len(x.routes) = 1 /\ x.routes[1].labels[Len(x.routes[1].labels)] # 0}}
   \cup {El("lu6", EncLu(m.routes[1], TRUE)) : m \in {x \in LuPool("lu6") : x.reach /\ Len(x.routes) = 1 /\ x.routes[1].labels[Len(x.routes[1].labels)] # 0}}
   \cup {El("vpn4", EncVpn(m.routes[1], TRUE)) : m \in {x \in VpnPool("vpn4") : x.reach /\ Len(x.routes) = 1}}
   \cup {El("vpn6", EncVpn(m.routes[1], TRUE)) : m \in {x \in VpnPool("vpn6") : x.reach /\ Len(x.routes) = 1}}
   \cup {El("evpn", EncEvpn(e)) : e \in EvpnRoutes}
   \cup {El("fsrule", EncRule(r)) : r \in FsRules}
   \cup {El("comm", x.o) : x \in StdPool} \cup {El("extcomm", x.o) : x \in ExtPool} \cup {El("large", x.o) : x \in LargePool}
   \cup {El("cluster", i) : i \in Ips \cup {<<1, 2, 3, 4>>}}
   \cup {El("asseg4", EncSeg(sg, TRUE)) : sg \in {Seg(st, as) : st \in 1..4, as \in {<<<<0, 1>>>>, <<<<1, 0>>, <<0, 7>>>>, LongAs(3)}}}
   \cup {El("asseg2", EncSeg(sg, FALSE)) : sg \in {Seg(st, as) : st \in 1..4, as \in {<<<<0, 1>>>>, <<<<0, 65535>>, <<0, 7>>>>, LongAs(3)}}}
   \cup {El("cap", EncCap(c)) : c \in {CapKinds(<<0, 65002>>)[i] : i \in 1..11} \cup MoreCaps(<<0, 65002>>)}
OpenVecs == {[kind |-> "open", u |-> o] : o \in {x \in OpenPool : NeedsAs4(x)}}
OpenRtVecs == {[kind |-> "openrt", u |-> o] : o \in OpenRtPool}
NotifVecs == {[kind |-> "notif", u |-> n] : n \in NotifPool}
RRVecs == {[kind |-> "rr", u |-> r] : r \in RRPool}
Vecs == CASE FAMILY = "upd" -> UpdVecs [] FAMILY = "updvar" -> VarVecs [] FAMILY = "cor" -> CorVecs
          [] FAMILY = "open" -> OpenVecs [] FAMILY = "openrt" -> OpenRtVecs [] FAMILY = "notif" -> NotifVecs
          [] FAMILY = "comm" -> {[kind |-> "comm", sub |-> 16, u |-> x] : x \in ExtPool} \cup {[kind |-> "comm", sub |-> 8, u |-> x] : x \in StdPool}
                                 \cup {[kind |-> "comm", sub |-> 32, u |-> x] : x \in LargePool}
          [] FAMILY = "updap" -> {[kind |-> "updap", asn4 |-> TRUE, var |-> Canon, u |-> x.u, wids |-> x.wids, nids |-> x.nids] : x \in AddPathVecs}
          [] FAMILY \in {"mp_ipv6", "mp_lu4", "mp_lu6", "mp_vpn4", "mp_vpn6", "mp_evpn", "mp_fs"} -> MpPool(SubSeq(FAMILY, 4, Len(FAMILY)))
          [] FAMILY = "elems" -> ElemVecs
          [] FAMILY = "rr" -> RRVecs [] FAMILY = "ka" -> {[kind |-> "ka", u |-> [x |-> 0]]}

Bytes(v) ==
   CASE v.kind = "cor" -> Message(2, v.u.b)
     [] v.kind \in {"open", "openrt"} -> EncOpen(v.u)
     [] v.kind = "notif" -> EncNotification(v.u.code, v.u.sub, v.u.data)
     [] v.kind = "rr" -> EncRouteRefresh(v.u.typ, v.u.afi, v.u.res, v.u.safi)
     [] v.kind = "ka" -> EncKeepalive
     [] v.kind = "elem" -> v.o
     [] v.kind = "mp" -> EncMpUpdate(v)
     [] v.kind = "updap" -> EncUpdateAddPath(v.u, TRUE, v.wids, v.nids)
     [] v.kind = "comm" ->     \* an UPDATE announcing one prefix with the base attributes and this one community
          LET a == EncAttrs(Base(TRUE), TRUE, FALSE) \o AttrTLV(v.sub, v.u.o, FALSE)
          IN Message(2, U16(0) \o U16(Len(a)) \o a \o EncPrefix(P6[6]))
     [] OTHER -> EncUpdate(v.u, v.asn4, v.var)
Init == vec \in Vecs
Next == FALSE /\ UNCHANGED vec
\* theorem on the specification: reference encodings are structurally valid (add-path identifiers change the
\* prefix-list format, so those variants are outside the walker's scope)
RefWellFormed ==
   CASE vec.kind \in {"upd", "updvar"} -> (~vec.var.pathids => WfUpdate(Bytes(vec), vec.asn4))
     [] vec.kind \in {"open", "openrt"} -> WfOpen(Bytes(vec))
     [] vec.kind = "notif" -> WfNotification(Bytes(vec))
     [] vec.kind = "rr" -> WfRouteRefresh(Bytes(vec))
     [] vec.kind = "ka" -> WfKeepalive(Bytes(vec))
     [] vec.kind = "comm" -> WfUpdate(Bytes(vec), TRUE)
     [] vec.kind = "updap" -> WfUpdateAP(Bytes(vec), TRUE)
     [] vec.kind = "mp" -> WfUpdateMp(Bytes(vec), TRUE)
     [] OTHER -> TRUE
Emit == PrintT("@W " \o ToJson([vec EXCEPT !.u = IF vec.kind = "cor" THEN [name |-> vec.u.name] ELSE vec.u] @@ [b |-> Bytes(vec)]))
=============================================================================
