------------------------------- MODULE WireGen -------------------------------
(***************************************************************************)
(* Vector generator (spec -> code, DESIGN.md 2.4): TLC enumerates the      *)
(* bounded value pools of the wire modules, checks the format-level        *)
(* theorems on the specification itself (the reference encoding of every   *)
(* value in every legal variant is accepted by the structural walker), and *)
(* prints every value with its reference encoding as a JSON test vector    *)
(* for the real yabgp codec.                                               *)
(***************************************************************************)
EXTENDS WireMp, WireOpen, WireComm, TLCExt, Json

CONSTANTS FAMILY      \* which vector family this run enumerates: "upd", "updvar", "cor", "open", "openrt", "notif", "rr", "ka"

VARIABLE vec
UpdVecs(lazy) == {[kind |-> "upd", asn4 |-> TRUE, var |-> Canon, u |-> u] : u \in UpdatePool(TRUE)}
           \cup {[kind |-> "upd", asn4 |-> FALSE, var |-> Canon, u |-> u] : u \in UpdatePool(FALSE)}
WideVecs(lazy) == {[kind |-> "upd", asn4 |-> TRUE, var |-> Canon, u |-> u] : u \in WidePool(TRUE)}
            \cup {[kind |-> "upd", asn4 |-> FALSE, var |-> Canon, u |-> u] : u \in WidePool(FALSE)}
WideVarVecs(lazy) == {[kind |-> "updvar", asn4 |-> a, var |-> [ext |-> TRUE, dirty |-> TRUE, pathids |-> FALSE], u |-> u] : a \in BOOLEAN, u \in WidePool(TRUE) \cap WidePool(FALSE)}
               \cup {[kind |-> "updvar", asn4 |-> TRUE, var |-> Canon, u |-> [u EXCEPT !.attrs = Reverse(u.attrs)]] : u \in WidePool(TRUE)}
Many(lazy) == {x \in UpdatePool(TRUE) : Len(x.attrs) >= 4}
Many2(lazy) == {x \in UpdatePool(FALSE) : Len(x.attrs) >= 4}
VarVecs(lazy) == {[kind |-> "updvar", asn4 |-> TRUE, var |-> v, u |-> u] : v \in Variants \ {Canon}, u \in UpdatePool(TRUE)}
           \cup {[kind |-> "updvar", asn4 |-> FALSE, var |-> v, u |-> u] : v \in Variants \ {Canon}, u \in UpdatePool(FALSE)}
           \cup {[kind |-> "updvar", asn4 |-> FALSE, var |-> v, u |-> u] : v \in {Canon, [ext |-> TRUE, dirty |-> FALSE, pathids |-> FALSE]}, u \in DecodeOnly}
           \cup UNION {{[kind |-> "updvar", asn4 |-> FALSE, var |-> Canon, u |-> [u EXCEPT !.attrs = ordr]] : ordr \in Orders(u.attrs)} : u \in DecodeOnly}
           \cup UNION {{[kind |-> "updvar", asn4 |-> FALSE, var |-> Canon, u |-> [u EXCEPT !.attrs = ordr]] : ordr \in {Reverse(u.attrs), Rotate(u.attrs)}} : u \in Many2(0)}
           \cup {[kind |-> "updvar", asn4 |-> TRUE, var |-> Canon, u |-> [u EXCEPT !.attrs = Reverse(u.attrs)]] : u \in Many(0)}
           \cup {[kind |-> "updvar", asn4 |-> TRUE, var |-> Canon, u |-> [u EXCEPT !.attrs = Rotate(u.attrs)]] : u \in Many(0)}
CorVecs(lazy) == {[kind |-> "cor", asn4 |-> TRUE, var |-> Canon, u |-> c] : c \in Corruptions}
                 \cup {[kind |-> "cor", asn4 |-> FALSE, var |-> Canon, u |-> c] : c \in Corruptions2}
\* C15: per list kind, single elements of every width the format allows (element = its octets)
El(kind, o) == [kind |-> "elem", list |-> kind, o |-> o]
ElemVecs(lazy) ==
   {El("v4prefix", EncPrefix(p)) : p \in AllLen4} \cup {El("v6prefix", EncPrefix(p)) : p \in AllLen6}
   \cup {El("lu4", EncLu(m.routes[1], TRUE)) : m \in {x \in LuPool("lu4") : x.reach /\ Len(x.routes) = 1 /\ x.routes[1].labels[Len(x.routes[1].labels)] # 0}}
   \cup {El("lu6", EncLu(m.routes[1], TRUE)) : m \in {x \in LuPool("lu6") : x.reach /\ Len(x.routes) = 1 /\ x.routes[1].labels[Len(x.routes[1].labels)] # 0}}
   \cup {El("vpn4", EncVpn(m.routes[1], TRUE)) : m \in {x \in VpnPool("vpn4") : x.reach /\ Len(x.routes) = 1}}
   \cup {El("vpn6", EncVpn(m.routes[1], TRUE)) : m \in {x \in VpnPool("vpn6") : x.reach /\ Len(x.routes) = 1}}
   \cup {El("evpn", EncEvpn(e)) : e \in EvpnRoutes(0)}
   \cup {El("fsrule", EncRule(r)) : r \in FsRules(0)}
   \cup {El("comm", x.o) : x \in StdPool(0)} \cup {El("extcomm", x.o) : x \in ExtPool(0)} \cup {El("large", x.o) : x \in LargePool(0)}
   \cup {El("cluster", i) : i \in Ips \cup {<<1, 2, 3, 4>>}}
   \cup {El("asseg4", EncSeg(sg, TRUE)) : sg \in {Seg(st, as) : st \in 1..4, as \in {<<<<0, 1>>>>, <<<<1, 0>>, <<0, 7>>>>, LongAs(3)}}}
   \cup {El("asseg2", EncSeg(sg, FALSE)) : sg \in {Seg(st, as) : st \in 1..4, as \in {<<<<0, 1>>>>, <<<<0, 65535>>, <<0, 7>>>>, LongAs(3)}}}
   \cup {El("cap", EncCap(c)) : c \in {CapKinds(<<0, 65002>>)[i] : i \in 1..11} \cup MoreCaps(<<0, 65002>>)}
\* C06, text forms: the same values with every IPv4 address and prefix of the request written with leading zeros
\* (`sp` digits per octet at least); construction is refused, or the message decodes to the values the text denotes
SpellIps == {<<192, 168, 1, 10>>, <<10, 1, 2, 3>>, <<172, 16, 0, 1>>, <<10, 20, 30, 40>>, <<8, 9, 1, 77>>}
SpellVecs(lazy) ==
   {[kind |-> "updspell", asn4 |-> a, var |-> Canon, sp |-> sp, u |-> Upd(<<>>, <<At(1, 0), At(2, <<Seg(2, <<<<0, 65001>>>>)>>)>> \o x, <<P6[6]>>)] :
        a \in BOOLEAN, sp \in {2, 3},
        x \in {<<At(3, i)>> : i \in SpellIps} \cup {<<At(3, <<10, 0, 0, 1>>), At(9, i)>> : i \in SpellIps} \cup {<<At(3, <<10, 0, 0, 1>>), At(10, <<i, <<10, 10, 10, 10>>>>)>> : i \in SpellIps}
               \cup {<<At(3, <<10, 0, 0, 1>>), At(7, [as |-> <<0, 65001>>, ip |-> i])>> : i \in SpellIps}}
   \cup {[kind |-> "updspell", asn4 |-> TRUE, var |-> Canon, sp |-> sp, u |-> Upd(wd, Base(TRUE), nl)] : sp \in {2, 3},
        wd \in {<<>>, <<Pfx(24, <<10, 10, 10, 0>>)>>}, nl \in {<<Pfx(24, <<10, 8, 10, 0>>)>>, <<Pfx(32, <<10, 20, 30, 40>>), Pfx(16, <<172, 16, 0, 0>>)>>}}
OpenVecs(lazy) == {[kind |-> "open", u |-> o] : o \in {x \in OpenPool(0) : NeedsAs4(x)}}
OpenRtVecs(lazy) == {[kind |-> "openrt", u |-> o] : o \in OpenRtPool(0)}
NotifVecs(lazy) == {[kind |-> "notif", u |-> n] : n \in NotifPool(0)}
RRVecs(lazy) == {[kind |-> "rr", u |-> r] : r \in RRPool(0)}
Vecs == CASE FAMILY = "upd" -> UpdVecs(0) [] FAMILY = "updvar" -> VarVecs(0) [] FAMILY = "cor" -> CorVecs(0)
          [] FAMILY = "updwide" -> WideVecs(0) [] FAMILY = "updvarwide" -> WideVarVecs(0)
          [] FAMILY = "open" -> OpenVecs(0) [] FAMILY = "openrt" -> OpenRtVecs(0) [] FAMILY = "notif" -> NotifVecs(0)
          [] FAMILY = "comm" -> {[kind |-> "comm", sub |-> 16, u |-> x] : x \in ExtPool(0)} \cup {[kind |-> "comm", sub |-> 8, u |-> x] : x \in StdPool(0)} \cup {[kind |-> "comm", sub |-> 16, u |-> x] : x \in RawPool(0)} \cup {[kind |-> "comm", sub |-> 16, u |-> x] : x \in MultiPool}
                                 \cup {[kind |-> "comm", sub |-> 32, u |-> x] : x \in LargePool(0)}
                                 \cup {[kind |-> "comm", sub |-> 32, u |-> x] : x \in {y \in LargeMulti : SubSeq(y.o, 1, 12) # SubSeq(y.o, 13, 24) /\ SubSeq(y.o, 13, 24) # SubSeq(y.o, 25, 36) /\ SubSeq(y.o, 1, 12) # SubSeq(y.o, 25, 36)}}
          [] FAMILY = "updap" -> {[kind |-> "updap", asn4 |-> TRUE, var |-> Canon, u |-> x.u, wids |-> x.wids, nids |-> x.nids] : x \in AddPathVecs}
          [] FAMILY \in {"mp_ipv6", "mp_lu4", "mp_lu6", "mp_vpn4", "mp_vpn6", "mp_evpn", "mp_fs"} -> MpPool(SubSeq(FAMILY, 4, Len(FAMILY)))
          [] FAMILY = "enc" -> EncVecs(0) [] FAMILY = "mpdec" -> Mp4Vecs(0) [] FAMILY = "updspell" -> SpellVecs(0) [] FAMILY = "fsdec" -> FsDecVecs(0)
          [] FAMILY = "elems" -> ElemVecs(0)
          [] FAMILY = "rr" -> RRVecs(0) [] FAMILY = "ka" -> {[kind |-> "ka", u |-> [x |-> 0]]}

Bytes(v) ==
   CASE v.kind = "cor" -> Message(2, v.u.b)
     [] v.kind \in {"open", "openrt"} -> EncOpen(v.u)
     [] v.kind = "notif" -> EncNotification(v.u.code, v.u.sub, v.u.data)
     [] v.kind = "rr" -> EncRouteRefresh(v.u.typ, v.u.afi, v.u.res, v.u.safi)
     [] v.kind = "ka" -> EncKeepalive
     [] v.kind = "elem" -> v.o
     [] v.kind = "mp" -> EncMpUpdate(v)
     [] v.kind = "enc" -> EncBytes(v)
     [] v.kind = "mpdec" -> Mp4Bytes(v)
     [] v.kind = "fsdec" -> FsDecBytes(v)
     [] v.kind = "updap" -> EncUpdateAddPath(v.u, TRUE, v.wids, v.nids)
     [] v.kind = "comm" ->     \* an UPDATE announcing one prefix with the base attributes and this one community
          LET a == EncAttrs(Base(TRUE), TRUE, FALSE) \o AttrTLV(v.sub, v.u.o, FALSE)
          IN Message(2, U16(0) \o U16(Len(a)) \o a \o EncPrefix(P6[6]))
     [] OTHER -> EncUpdate(v.u, v.asn4, v.var)
Init == vec \in Vecs
Next == FALSE /\ UNCHANGED vec
\* theorem on the specification: reference encodings are structurally valid (add-path identifiers change the
\* prefix-list format, so those variants are outside the walker's scope)
RefWellFormed ==
   CASE vec.kind \in {"upd", "updvar", "updspell"} -> (~vec.var.pathids => WfUpdate(Bytes(vec), vec.asn4))
     [] vec.kind \in {"open", "openrt"} -> WfOpen(Bytes(vec))
     [] vec.kind = "notif" -> WfNotification(Bytes(vec))
     [] vec.kind = "rr" -> WfRouteRefresh(Bytes(vec))
     [] vec.kind = "ka" -> WfKeepalive(Bytes(vec))
     [] vec.kind = "comm" -> WfUpdate(Bytes(vec), TRUE)
     [] vec.kind = "updap" -> WfUpdateAP(Bytes(vec), TRUE)
     [] vec.kind = "mp" -> WfUpdateMp(Bytes(vec), TRUE)
     [] vec.kind = "enc" -> (ValidEnc(vec) => WfUpdateMp(Bytes(vec), TRUE))
     [] OTHER -> TRUE
Emit == PrintT("@W " \o ToJson([vec EXCEPT !.u = IF vec.kind = "cor" THEN [name |-> vec.u.name] ELSE vec.u] @@ [b |-> Bytes(vec)]))
=============================================================================
