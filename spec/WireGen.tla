------------------------------- MODULE WireGen -------------------------------
(***************************************************************************)
(* Vector generator (spec -> code, DESIGN.md 2.4): TLC enumerates the      *)
(* bounded value pools of the wire modules, checks the format-level        *)
(* theorems on the specification itself (the reference encoding of every   *)
(* value in every legal variant is accepted by the structural walker), and *)
(* prints every value with its reference encoding as a JSON test vector    *)
(* for the real yabgp codec.                                               *)
(***************************************************************************)
EXTENDS WireUpdate, TLCExt, Json

CONSTANTS FAMILY      \* which vector family this run enumerates: "upd", "updvar", "cor"

VARIABLE vec
UpdVecs == {[kind |-> "upd", asn4 |-> TRUE, var |-> Canon, u |-> u] : u \in UpdatePool(TRUE)}
           \cup {[kind |-> "upd", asn4 |-> FALSE, var |-> Canon, u |-> u] : u \in UpdatePool(FALSE)}
Many == {x \in UpdatePool(TRUE) : Len(x.attrs) >= 4}
VarVecs == {[kind |-> "updvar", asn4 |-> TRUE, var |-> v, u |-> u] : v \in Variants \ {Canon}, u \in UpdatePool(TRUE)}
           \cup {[kind |-> "updvar", asn4 |-> FALSE, var |-> v, u |-> u] : v \in Variants \ {Canon}, u \in UpdatePool(FALSE)}
           \cup {[kind |-> "updvar", asn4 |-> FALSE, var |-> v, u |-> u] : v \in {Canon, [ext |-> TRUE, dirty |-> FALSE, pathids |-> FALSE]}, u \in DecodeOnly}
           \cup {[kind |-> "updvar", asn4 |-> TRUE, var |-> Canon, u |-> [u EXCEPT !.attrs = Reverse(u.attrs)]] : u \in Many}
           \cup {[kind |-> "updvar", asn4 |-> TRUE, var |-> Canon, u |-> [u EXCEPT !.attrs = Rotate(u.attrs)]] : u \in Many}
CorVecs == {[kind |-> "cor", asn4 |-> TRUE, var |-> Canon, u |-> c] : c \in Corruptions}
Vecs == CASE FAMILY = "upd" -> UpdVecs [] FAMILY = "updvar" -> VarVecs [] FAMILY = "cor" -> CorVecs

Bytes(v) == IF v.kind = "cor" THEN Message(2, v.u.b) ELSE EncUpdate(v.u, v.asn4, v.var)
Init == vec \in Vecs
Next == FALSE /\ UNCHANGED vec
\* theorem on the specification: reference encodings are structurally valid (add-path identifiers change the
\* prefix-list format, so those variants are outside the walker's scope)
RefWellFormed == (vec.kind # "cor" /\ ~vec.var.pathids) => WfUpdate(Bytes(vec), vec.asn4)
Emit == PrintT("@W " \o ToJson([vec EXCEPT !.u = IF vec.kind = "cor" THEN [name |-> vec.u.name] ELSE vec.u] @@ [b |-> Bytes(vec)]))
=============================================================================
