--------------------------------- MODULE Coop ---------------------------------
(***************************************************************************)
(* C02 on the model: after ANY reachable state of the adversarial model    *)
(* Session.tla (operator not having stopped the peer) the environment      *)
(* turns cooperative - closes complete, TCP connects are accepted, the     *)
(* peer answers our OPEN with a valid OPEN and sends a KEEPALIVE every     *)
(* tick, nothing else happens - and the session must be Established within *)
(* one idle-hold period plus SLACK ticks and stay Established from then on.*)
(* A bounded-time invariant instead of a liveness property, so the bound   *)
(* itself is checked (DESIGN.md 5 C02).                                    *)
(***************************************************************************)
EXTENDS Session

CONSTANTS SLACK,      \* ticks allowed for the connection cycle on top of the idle-hold time
          WATCH       \* ticks the established session is watched afterwards (3 hold times)

VARIABLES ck,         \* -1: adversarial phase; >= 0: ticks since the environment became cooperative
          kad         \* the cooperative peer has sent its KEEPALIVE for the current tick
cvars == <<s, ev, ck, kad>>

CInit == Init /\ ck = -1 /\ kad = FALSE
Adversarial == ck = -1 /\ Next /\ UNCHANGED <<ck, kad>>
Switch == ck = -1 /\ s.booted /\ s.allow /\ ck' = 0 /\ kad' = FALSE /\ UNCHANGED <<s, ev>>
Due == \E t \in Timers : s.tm[t] = 0
Closing == {c \in ConnIds : s.conns[c].cs = "closing"}
Connecting == {c \in ConnIds : s.conns[c].cs = "connecting"}
OpenCur == s.cur # 0 /\ s.conns[s.cur].cs = "open"
\* the cooperative environment, in priority order; time advances only when nothing else is left to do
CoopStep ==
   /\ ck >= 0
   /\ IF Due THEN (\E t \in Timers : TimerFires(t)) /\ UNCHANGED <<ck, kad>>
      ELSE IF Closing # {} THEN (\E c \in Closing : ConnLost(c)) /\ UNCHANGED <<ck, kad>>
      ELSE IF Connecting # {} THEN (\E c \in Connecting : ConnSucceeds(c)) /\ UNCHANGED <<ck, kad>>
      ELSE IF OpenCur /\ s.st = "OPENSENT" THEN PeerSends(s.cur, [m |-> "OPEN", h |-> 90]) /\ UNCHANGED <<ck, kad>>
      ELSE IF OpenCur /\ s.st \in {"OPENCONFIRM", "ESTABLISHED"} /\ ~kad THEN PeerSends(s.cur, [m |-> "KA", h |-> 0]) /\ kad' = TRUE /\ UNCHANGED ck
      ELSE Tick /\ ck' = ck + 1 /\ kad' = FALSE
CNext == Adversarial \/ Switch \/ CoopStep
CSpec == CInit /\ [][CNext]_cvars

\* the property: Established in time, and still Established afterwards
C02_Recovers == (ck > IDLEHOLD + SLACK) => s.st = "ESTABLISHED"
\* supporting invariant: in the cooperative phase something is always pending until the session is up
C02_NotStuck == (ck >= 0 /\ s.st # "ESTABLISHED") => (Rems # {} \/ Closing # {} \/ Connecting # {} \/ OpenCur)
\* vacuity guard: one tick less than the idle-hold period is NOT enough (must be violated)
C02_TooStrict == (ck >= IDLEHOLD /\ ck >= 0) => s.st = "ESTABLISHED"
CBound == Len(s.conns) <= MAXLIVE /\ ck <= IDLEHOLD + SLACK + WATCH
CView == <<Clr(s), ck, kad>>
CReport(c) == PrintT("@V " \o ToJson([clause |-> c, st |-> s.st, ck |-> ck, tm |-> s.tm, conns |-> s.conns, allow |-> s.allow]))
CInv == /\ (IF C02_Recovers THEN TRUE ELSE CReport("C02.recovers"))
        /\ (IF C02_NotStuck THEN TRUE ELSE CReport("C02.notstuck"))
=============================================================================
