------------------------------- MODULE TraceDec -------------------------------
(***************************************************************************)
(* C11 on recorded decoder calls: every line is one call of a real yabgp   *)
(* decoder entry point on one input: n = input length, work = executed     *)
(* yabgp source lines (sys.monitoring), over = the line budget was         *)
(* exhausted (the call was aborted), raised = an exception escaped,        *)
(* upd = the entry point is Update.parse, inrange = the two UPDATE length  *)
(* fields fit the body, isdict = a result object came back.                *)
(***************************************************************************)
EXTENDS Naturals, Integers, Sequences, FiniteSets, TLC, TLCExt, Json, IOUtils

CONSTANTS WA, WB       \* work bound: WA + WB * n executed lines
Tr == ndJsonDeserialize(IOEnv.TRACE_FILE)
VARIABLE l
Rj(r, clause, extra) == PrintT("@R " \o ToJson([tid |-> r.id, i |-> 0, clause |-> clause, pst |-> r.ep, cls |-> r.cls, extra |-> extra]))
Ck(r, clause, cond, extra) == IF cond THEN TRUE ELSE Rj(r, clause, extra)
CheckLine(r) ==
   /\ Ck(r, "C11.terminates", ~r.over, <<r.n, r.work>>)
   /\ Ck(r, "C11.work", r.over \/ r.work <= WA + WB * r.n, <<r.n, r.work>>)
   /\ Ck(r, "C11.noraise", (r.upd /\ r.inrange) => (~r.raised /\ r.isdict), r.err)
Init == l = 1
Next == l <= Len(Tr) /\ CheckLine(Tr[l]) /\ l' = l + 1
AllConsumed == TLCGet("stats").diameter - 1 = Len(Tr)
=============================================================================
