------------------------------ MODULE TraceRib ------------------------------
(***************************************************************************)
(* C19 on recorded executions: behaviours of Rib.tla replayed on the REAL  *)
(* agent (RIB maintenance on): received UPDATEs are real octets delivered  *)
(* to dataReceived, sent ones go through POST /send/update.  After every   *)
(* step the harness records the IPv4 Adj-RIB-In / -Out (through REST and   *)
(* directly) and the six version counters (GET /version/...); TLC compares *)
(* them with the dictionary model of RibRef.tla.                           *)
(***************************************************************************)
EXTENDS RibRef, IOUtils

Tr == ndJsonDeserialize(IOEnv.TRACE_FILE)
Fams == {"ipv4", "flowspec", "mpls_vpn"}
Dirs == {"in", "out"}
KeysOf(f) == CASE f = "ipv4" -> {"p1", "p2"} [] f = "flowspec" -> {"f1", "f2"} [] OTHER -> {"v1", "v2"}
VARIABLES l, tab, ver
tvars == <<l, tab, ver>>
Tab0 == [d \in Dirs |-> [f \in Fams |-> Empty(KeysOf(f))]]
Ver0 == [d \in Dirs |-> [f \in Fams |-> 0]]

Rj(r, clause, extra) == PrintT("@R " \o ToJson([tid |-> r.tid, i |-> r.i, clause |-> clause, pst |-> r.k \o "-" \o r.d \o "-" \o r.f, cls |-> r.shape, extra |-> extra]))
Ck(r, clause, cond, extra) == IF cond THEN TRUE ELSE Rj(r, clause, extra)

\* expected tables after this line
NextTab(r) ==
   CASE r.k = "update" -> [tab EXCEPT ![r.d][r.f] = Apply(@, OpsOf(r.wd, r.nl, r.a))]
     [] r.k \in {"drop", "begin"} -> Tab0
     [] OTHER -> tab
Changed(r, d, f) == r.k = "update" /\ r.d = d /\ r.f = f /\ Changes(tab[d][f], OpsOf(r.wd, r.nl, r.a)) > 0
\* what a lookup in the IPv4 Adj-RIB-In answers: the longest present pool prefix that covers the asked prefix / address
\* (r.cov[q]: the covering pool prefixes, longest first), with the attributes the table holds for it; nothing when there is none
RECURSIVE FirstPresent(_, _)
FirstPresent(ks, t) == IF ks = <<>> THEN <<"", 0>> ELSE IF t[Head(ks)] # 0 THEN <<Head(ks), t[Head(ks)]>> ELSE FirstPresent(Tail(ks), t)
CheckLine(r) ==
   LET nt == NextTab(r) IN
   /\ Ck(r, "C19.ribin", r.up => r.ribin = nt["in"]["ipv4"], <<r.ribin, nt["in"]["ipv4"]>>)
   /\ Ck(r, "C19.ribout", r.up => r.ribout = nt["out"]["ipv4"], <<r.ribout, nt["out"]["ipv4"]>>)
   /\ Ck(r, "C19.empty", ~r.up => r.ribin = Empty(KeysOf("ipv4")), r.ribin)
   /\ Ck(r, "C19.rest", r.restok, <<>>)
   /\ \A q \in DOMAIN r.cov : Ck(r, "C19.lookup", r.up => r.lookup[q] = FirstPresent(r.cov[q], nt["in"]["ipv4"]), <<q, r.lookup[q]>>)
   /\ Ck(r, "C19.sent", (r.k = "update" /\ r.d = "out") => r.sendok, <<>>)
   /\ Ck(r, "C19.noescape", r.exc = 0, <<>>)
   /\ \A d \in Dirs, f \in Fams :
        Ck(r, "C19.version", (r.k = "update" /\ r.up) => ((r.ver[d][f] > ver[d][f]) <=> Changed(r, d, f)) /\ r.ver[d][f] >= ver[d][f],
           <<d, f, ver[d][f], r.ver[d][f]>>)

TInit == l = 1 /\ tab = Tab0 /\ ver = Ver0
TNext == /\ l <= Len(Tr)
         /\ LET r == Tr[l] IN
            /\ (IF r.k = "begin" THEN TRUE ELSE CheckLine(r))
            /\ tab' = NextTab(r)
            /\ ver' = IF r.k \in {"begin", "newsession", "drop"} THEN (IF r.k = "drop" THEN ver ELSE Ver0) ELSE r.ver
         /\ l' = l + 1
AllConsumed == TLCGet("stats").diameter - 1 = Len(Tr)
=============================================================================
