------------------------------ MODULE Session ------------------------------
(***************************************************************************)
(* Layer I: implementation-shaped model of yabgp's session layer           *)
(*   yabgp/core/fsm.py, core/protocol.py (session part), core/factory.py,  *)
(*   core/timer.py, and the Twisted environment (DESIGN.md 3.1, 7).        *)
(*                                                                         *)
(* One action per reactor callback / operator call; the operators mirror   *)
(* the Python methods one to one and are composed in the order the code    *)
(* executes them.  The model says what the code does (after the fix:       *)
(* commits recorded in known_findings.json), not what RFC 4271 says; the   *)
(* properties live in SessionProps.tla (on this model) and TraceProps.tla  *)
(* (on recorded executions of the real code).                              *)
(***************************************************************************)
EXTENDS Naturals, Integers, Sequences, FiniteSets, TLC, TLCExt, Json

CONSTANTS CRT,        \* connect_retry_time              (ticks)
          HOLDCFG,    \* configured hold time            (seconds)
          IDLEHOLD,   \* idle_hold_time                  (ticks)
          LARGEHOLD,  \* FSM.large_hold_time = 240 s     (ticks)
          TCPTO,      \* timeout=30 in BGPPeering.connect(ticks)
          MAXLIVE,    \* bound on simultaneously tracked connections (CONSTRAINT only)
          PEERHOLDS,  \* hold times a peer OPEN may carry (seconds)
          TICKNUM, TICKDEN,  \* one tick = TICKNUM/TICKDEN seconds
          CNTCAP,     \* message counters saturate here (0 = counters not modelled)
          MSGS,       \* names of the peer message shapes in the alphabet
          RESTS       \* REST requests in the alphabet: subset of {"SEND_UPDATE", "SEND_RR", "READ_STATE", "BADCRED_STOP", "BADCRED_SEND"}

Off == 9999
Timers == {"cr", "hold", "ka", "idle"}
Ticks(sec) == (sec * TICKDEN) \div TICKNUM
Kinds == {"O", "U", "N", "K", "R"}
ZeroCnt == [k \in Kinds |-> 0]
Sat(x) == IF x < CNTCAP THEN x + 1 ELSE x

ASSUME \A h \in PEERHOLDS \cup {HOLDCFG} : h < 3 \/ (Ticks(h) * TICKNUM = h * TICKDEN /\ Ticks(h) % 3 = 0)

VARIABLES s,    \* abstract agent + environment state (a record, see Init)
          ev    \* the event that led to s (observation only, hidden by VIEW)
vars == <<s, ev>>

(************************* small helpers on the record *********************)
SetT(r, t, v) == [r EXCEPT !.tm[t] = v]
Cancel(r, t) == SetT(r, t, Off)
Report(r, name) == [r EXCEPT !.rep = Append(@, name)]
SetSt(r, st) ==  \* FSM.__setattr__: entering Established reports on_established
   IF st = "ESTABLISHED" /\ r.st # "ESTABLISHED" THEN Report([r EXCEPT !.st = st], "on_established")
   ELSE [r EXCEPT !.st = st]
CurLive(r) == r.cur # 0 /\ r.conns[r.cur].cs \in {"open", "closing"}

\* transport.write through fsm.protocol: always the tracked connection; Twisted drops writes on a
\* disconnected transport (T3).  kind is the statistics bucket the send_* method increments.
SendOn(r, typ, code, sub, kind) ==
   IF CurLive(r)
   THEN [r EXCEPT !.out = Append(@, [c |-> r.cur, type |-> typ, code |-> code, sub |-> sub]),
                  !.conns[r.cur].sent[kind] = Sat(@)]
   ELSE r

\* FSM._close_connection -> BGP.closeConnection (acts only if transport.connected)
CloseConnection(r) ==
   IF CurLive(r)
   THEN [r EXCEPT !.conns[r.cur].cs = "closing", !.cl = IF r.conns[r.cur].cs = "open" THEN Append(@, r.cur) ELSE @]
   ELSE r

NewConn == [cs |-> "connecting", to |-> TCPTO, poison |-> [m |-> "", h |-> 0], sent |-> ZeroCnt, recv |-> ZeroCnt]
\* BGPPeering._abort_connecting: the pending attempt (there is at most one: the kept connector) is given up;
\* Twisted reports it through clientConnectionFailed, which ignores connectors the peering dropped itself
AbortConnecting(r) ==
   [r EXCEPT !.conns = [i \in 1..Len(r.conns) |->
                          IF r.conns[i].cs = "connecting" THEN [r.conns[i] EXCEPT !.cs = "closed", !.to = Off] ELSE r.conns[i]]]
\* BGPPeering.connect
Connect(r) == IF r.st # "ESTABLISHED" THEN [AbortConnecting(r) EXCEPT !.conns = Append(@, NewConn), !.att = @ + 1] ELSE r

\* FSM.automatic_start -> <<r', start?>>
FsmAutomaticStart(r, idleHold) ==
   IF r.st \in {"IDLE", "CONNECT"}
   THEN IF idleHold THEN <<SetT(r, "idle", IDLEHOLD), FALSE>>
        ELSE IF r.allow THEN <<SetSt(SetT(r, "cr", CRT), "CONNECT"), TRUE>>
        ELSE <<r, FALSE>>
   ELSE <<r, FALSE>>

\* BGPPeering.automatic_start
PeeringAutomaticStart(r, idleHold) ==
   IF r.st = "IDLE"
   THEN LET p == FsmAutomaticStart(r, idleHold) IN IF p[2] THEN Connect(p[1]) ELSE p[1]
   ELSE r

\* BGPPeering.connection_closed(pro); isCur <=> pro is fsm.protocol.  estab_protocol is either None
\* or the protocol fsm.protocol points at (both are only ever set together in buildProtocol).
ConnectionClosed(r, isCur) ==
   LET r1 == IF isCur /\ r.estab THEN SetSt([r EXCEPT !.estab = FALSE], "IDLE") ELSE r
   IN IF r1.allow THEN PeeringAutomaticStart(r1, TRUE) ELSE r1

\* FSM._error_close
ErrorClose(r) ==
   LET r1 == Cancel(Cancel(Cancel(r, "cr"), "hold"), "ka")
       r2 == SetT(r1, "idle", IDLEHOLD)
       r3 == CloseConnection(r2)
   IN SetSt(r3, "IDLE")

\* FSM.connection_failed
ConnectionFailed(r) ==
   CASE r.st = "CONNECT" ->
          LET r1 == CloseConnection(Cancel(r, "cr")) IN ConnectionClosed(SetSt(r1, "IDLE"), TRUE)
     [] r.st = "ACTIVE" -> SetSt(SetT(r, "cr", CRT), "IDLE")
     [] r.st = "OPENSENT" ->
          LET r1 == SetT(CloseConnection(r), "cr", CRT) IN ConnectionClosed(SetSt(r1, "ACTIVE"), TRUE)
     [] r.st \in {"OPENCONFIRM", "ESTABLISHED"} -> ErrorClose(r)
     [] OTHER -> r

\* FSM.connection_made (delay_open is always False); each session starts from the configured hold time
ConnectionMade(r) ==
   IF r.st \in {"CONNECT", "ACTIVE"}
   THEN LET r0 == [r EXCEPT !.hold = HOLDCFG]
            r1 == Cancel(Cancel(r0, "cr"), "idle")
            r2 == Report(SendOn(r1, "OPEN", r1.hold, 0, "O"), "send_open")
        IN SetSt(SetT(r2, "hold", LARGEHOLD), "OPENSENT")
   ELSE r

\* FSM.open_received
OpenReceived(r) ==
   CASE r.st \in {"CONNECT", "ACTIVE"} -> ErrorClose(r)
     [] r.st = "OPENSENT" ->
          LET r1 == SendOn(Cancel(r, "cr"), "KEEPALIVE", 0, 0, "K")
              r2 == IF r1.hold > 0 THEN SetT(SetT(r1, "ka", Ticks(r1.hold) \div 3), "hold", Ticks(r1.hold))
                    ELSE Cancel(Cancel(r1, "ka"), "hold")
          IN SetSt(r2, "OPENCONFIRM")
     [] r.st = "ESTABLISHED" -> ErrorClose(SendOn(r, "NOTIFICATION", 5, 0, "N"))
     [] OTHER -> r

OpenMessageError(r, sub) == ErrorClose(SendOn(r, "NOTIFICATION", 2, sub, "N"))
HeaderError(r, sub) == ErrorClose(SendOn(r, "NOTIFICATION", 1, sub, "N"))

\* BGP.negotiate_hold_time: min(own, peer) stored in the long-lived FSM object
NegotiateHold(r, h) ==
   LET nh == IF r.hold < h THEN r.hold ELSE h
       r1 == [r EXCEPT !.hold = nh]
   IN IF h # 0 /\ h < 3 THEN OpenMessageError(r1, 6) ELSE r1      \* the proposed value is what is rejected (RFC 4271 4.2)

\* FSM.keep_alive_received
KeepAliveReceived(r) ==
   CASE r.st = "OPENCONFIRM" -> SetSt(IF r.hold > 0 THEN SetT(r, "hold", Ticks(r.hold)) ELSE r, "ESTABLISHED")
     [] r.st = "ESTABLISHED" -> IF r.hold > 0 THEN SetT(r, "hold", Ticks(r.hold)) ELSE r
     [] r.st \in {"CONNECT", "ACTIVE"} -> ErrorClose(r)
     [] r.st = "OPENSENT" -> ErrorClose(SendOn(r, "NOTIFICATION", 5, 0, "N"))
     [] OTHER -> r

\* FSM.update_received
UpdateReceived(r) ==
   CASE r.st = "ESTABLISHED" -> IF r.hold # 0 THEN SetT(r, "hold", Ticks(r.hold)) ELSE r
     [] r.st \in {"CONNECT", "ACTIVE"} -> ErrorClose(r)
     [] r.st \in {"OPENSENT", "OPENCONFIRM"} -> ErrorClose(SendOn(r, "NOTIFICATION", 5, 0, "N"))
     [] OTHER -> r

\* FSM.notification_received / notimsg_version_error
NotifReceived(r, verErr) ==
   IF verErr
   THEN CASE r.st \in {"OPENSENT", "OPENCONFIRM"} -> SetSt(CloseConnection(Cancel(Cancel(Cancel(r, "cr"), "hold"), "ka")), "IDLE")
          [] r.st \in {"CONNECT", "ACTIVE", "ESTABLISHED"} -> ErrorClose(r)
          [] OTHER -> r
   ELSE IF r.st # "IDLE" THEN ErrorClose(r) ELSE r

\* timer callbacks
CrEvent(r) ==
   CASE r.st \in {"CONNECT", "ACTIVE"} -> Connect(SetT(CloseConnection(r), "cr", CRT))
     [] r.st # "IDLE" -> ErrorClose(SendOn(r, "NOTIFICATION", 5, 0, "N"))
     [] OTHER -> r
HoldEvent(r) ==
   CASE r.st \in {"OPENSENT", "OPENCONFIRM", "ESTABLISHED"} ->
          ErrorClose(Cancel(SendOn(r, "NOTIFICATION", 4, 0, "N"), "cr"))
     [] r.st \in {"CONNECT", "ACTIVE"} -> ErrorClose(r)
     [] OTHER -> r
KaEvent(r) ==
   CASE r.st \in {"OPENCONFIRM", "ESTABLISHED"} ->
          LET r1 == SendOn(r, "KEEPALIVE", 0, 0, "K")
          IN IF r1.hold > 0 THEN SetT(r1, "ka", Ticks(r1.hold) \div 3) ELSE r1
     [] r.st \in {"CONNECT", "ACTIVE"} -> ErrorClose(r)
     [] OTHER -> r
IdleEvent(r) == IF r.st = "IDLE" THEN PeeringAutomaticStart(r, FALSE) ELSE r

Fire(r, t) == LET r0 == SetT(r, t, Off) IN
   CASE t = "cr" -> CrEvent(r0) [] t = "hold" -> HoldEvent(r0) [] t = "ka" -> KaEvent(r0) [] t = "idle" -> IdleEvent(r0)

\* FSM.manual_stop / BGPPeering.manual_start (through the REST endpoints)
ManualStop(r0) ==
   LET r  == AbortConnecting(r0)
       r1 == IF r.st = "ESTABLISHED" THEN SendOn(r, "NOTIFICATION", 6, 0, "N") ELSE r
       r2 == [r1 EXCEPT !.tm = [t \in Timers |-> Off]]
       r3 == CloseConnection(r2)
   IN SetSt([r3 EXCEPT !.allow = FALSE], "IDLE")
ManualStart(r) ==
   IF r.st = "IDLE" THEN Connect(SetSt([SetT(r, "cr", CRT) EXCEPT !.allow = TRUE], "CONNECT")) ELSE r

(************************* BGP.parse_buffer for one complete frame *********)
IncR(r, c, k) == [r EXCEPT !.conns[c].recv[k] = Sat(@)]
Deliver(r, c, m) ==
   CASE m.m = "OPEN" ->       \* count, parse ok, AS ok, negotiate (only in a state that acts on an OPEN), FSM event, report
          LET r1 == IncR(r, c, "O")
              r2 == IF r1.st \in {"CONNECT", "ACTIVE", "OPENSENT"} THEN NegotiateHold(r1, m.h) ELSE r1
          IN Report(OpenReceived(r2), "open_received")
     [] m.m = "OPENBADVER" -> OpenMessageError(IncR(r, c, "O"), 1)
     [] m.m = "OPENBADAS" -> OpenMessageError(IncR(r, c, "O"), 2)
     [] m.m = "OPENSHORT" -> HeaderError(r, 2)      \* shorter than the fixed part of an OPEN: not counted
     [] m.m = "KA" -> KeepAliveReceived(Report(IncR(r, c, "K"), "keepalive_received"))
     [] m.m = "KABODY" -> HeaderError(Report(IncR(r, c, "K"), "keepalive_received"), 2)
     [] m.m = "UPD" -> UpdateReceived(IncR(Report(r, "update_received"), c, "U"))
     [] m.m = "UPDBAD" -> UpdateReceived(IncR(Report(r, "on_update_error"), c, "U"))
     [] m.m = "NOTIFVER" -> NotifReceived(Report(IncR(r, c, "N"), "notification_received"), TRUE)
     [] m.m = "NOTIF" -> NotifReceived(Report(IncR(r, c, "N"), "notification_received"), FALSE)
     [] m.m = "NOTIFSHORT" -> r          \* struct.error swallowed by the catch-all, frame consumed
     [] m.m = "RR" -> Report(IncR(r, c, "R"), "route_refresh_received")
     [] m.m = "RRBAD" -> r               \* struct.error swallowed by the catch-all, frame consumed
     [] m.m = "BADMARKER" -> HeaderError(r, 1)
     [] m.m \in {"BADLEN", "BADLENSMALL"} -> HeaderError(r, 2)
     [] m.m = "BADTYPE" -> HeaderError(r, 3)
\* parse_buffer returns False WITHOUT consuming the frame after these: the frame stays at the head of
\* _receive_buffer and is re-parsed (and re-answered) on every later chunk of a connection that is still
\* open (only possible for a connection the FSM does not track, since the tracked one is closed).
Poisons == {"BADMARKER", "BADLEN", "BADLENSMALL", "OPENBADVER", "OPENBADAS", "OPENSHORT", "KABODY"}

(************************* end-of-step housekeeping *************************)
\* closed connections are dropped and the live ones renumbered, so histories of any length stay finite
GC(r) ==
   LET keep == {i \in 1..Len(r.conns) : r.conns[i].cs # "closed"}
       idx(i) == Cardinality({j \in keep : j <= i})
   IN [r EXCEPT !.conns = SelectSeq(r.conns, LAMBDA x : x.cs # "closed"),
                !.cur = IF r.cur \in keep THEN idx(r.cur) ELSE 0,
                !.trk = r.cur, !.trks = IF r.cur = 0 THEN "none" ELSE r.conns[r.cur].cs]
\* per-step observation fields: messages written, handler callbacks, connect attempts started, connections
\* we asked to close, and the tracked connection in this step's (pre-renumbering) indexes
Clr(r) == [r EXCEPT !.out = <<>>, !.rep = <<>>, !.att = 0, !.cl = <<>>, !.trk = 0, !.trks = "none"]

------------------------------------------------------------------------------
Init == /\ s = [st |-> "IDLE", tm |-> [t \in Timers |-> Off], allow |-> TRUE, hold |-> HOLDCFG,
                conns |-> <<>>, cur |-> 0, estab |-> FALSE, booted |-> FALSE, out |-> <<>>, rep |-> <<>>,
                att |-> 0, cl |-> <<>>, trk |-> 0, trks |-> "none"]
        /\ ev = [k |-> "init", c |-> 0, m |-> "", h |-> 0, t |-> ""]
E(k, c, m, h, t) == [k |-> k, c |-> c, m |-> m, h |-> h, t |-> t]
ConnIds == 1..Len(s.conns)

\* reactor.callLater(bgp_peer_call_later_time, bgp_peering.automatic_start) in prepare_twisted_service
Boot == /\ ~s.booted
        /\ s' = GC(PeeringAutomaticStart([Clr(s) EXCEPT !.booted = TRUE], FALSE))
        /\ ev' = E("boot", 0, "", 0, "")
\* buildProtocol (+ _initProtocol: state := CONNECT, fsm.protocol := p, estab_protocol := p), connectionMade
ConnSucceeds(c) ==
   /\ s.conns[c].cs = "connecting"
   /\ LET r1 == SetSt([Clr(s) EXCEPT !.conns[c].cs = "open", !.conns[c].to = Off, !.cur = c, !.estab = TRUE], "CONNECT")
      IN s' = GC(ConnectionMade(r1))
   /\ ev' = E("connOk", c, "", 0, "")
\* clientConnectionFailed (refused, or the 30 s TCP timeout)
ConnRefused(c) ==
   /\ s.conns[c].cs = "connecting"
   /\ s' = GC(ConnectionFailed(Report([Clr(s) EXCEPT !.conns[c].cs = "closed", !.conns[c].to = Off], "on_connection_failed")))
   /\ ev' = E("connRefused", c, "", 0, "")
TcpTimeout(c) ==
   /\ s.conns[c].cs = "connecting" /\ s.conns[c].to = 0
   /\ s' = GC(ConnectionFailed(Report([Clr(s) EXCEPT !.conns[c].cs = "closed", !.conns[c].to = Off], "on_connection_failed")))
   /\ ev' = E("tcpTimeout", c, "", 0, "")
\* connectionLost: the peer closed (cs = open) or our own loseConnection completed (cs = closing)
ConnLost(c) ==
   /\ s.conns[c].cs \in {"open", "closing"}
   /\ LET r1 == Report([Clr(s) EXCEPT !.conns[c].cs = "closed"], "on_connection_lost")
      IN s' = GC(IF s.conns[c].cs = "closing" THEN ConnectionClosed(r1, c = s.cur) ELSE ConnectionFailed(r1))
   /\ ev' = E("connLost", c, "", 0, "")
Msgs == {[m |-> "OPEN", h |-> h] : h \in (IF "OPEN" \in MSGS THEN PEERHOLDS ELSE {})} \cup
        {[m |-> x, h |-> 0] : x \in MSGS \ {"OPEN"}}
\* dataReceived with one complete frame; ignored once we closed the connection (BGP.disconnected)
PeerSends(c, m) ==
   /\ s.conns[c].cs \in {"open", "closing"}
   /\ s' = GC(IF s.conns[c].cs = "closing" THEN Clr(s)
              ELSE IF s.conns[c].poison.m # "" THEN Deliver(Clr(s), c, s.conns[c].poison)
              ELSE LET r1 == Deliver(Clr(s), c, m)
                   IN IF m.m \in Poisons THEN [r1 EXCEPT !.conns[c].poison = m] ELSE r1)
   /\ ev' = E("msg", c, m.m, m.h, "")
Running == {t \in Timers : s.tm[t] # Off}
Pending == {c \in ConnIds : s.conns[c].to # Off}
Rems == {s.tm[t] : t \in Running} \cup {s.conns[c].to : c \in Pending}
Tick == /\ s.booted              \* (the start-up call is due at once: no time passes before it has fired)
        /\ Rems # {} /\ \A x \in Rems : x > 0
        /\ s' = [[Clr(s) EXCEPT !.trk = s.cur, !.trks = IF s.cur = 0 THEN "none" ELSE s.conns[s.cur].cs] EXCEPT !.tm = [t \in Timers |-> IF s.tm[t] = Off THEN Off ELSE s.tm[t] - 1],
                          !.conns = [c \in ConnIds |-> IF s.conns[c].to = Off THEN s.conns[c] ELSE [s.conns[c] EXCEPT !.to = @ - 1]]]
        /\ ev' = E("tick", 0, "", 0, "")
TimerFires(t) == /\ s.tm[t] = 0 /\ s' = GC(Fire(Clr(s), t)) /\ ev' = E("fire", 0, "", 0, t)
\* (the operator may act before the start-up call has fired: the REST interface is up from the beginning)
Stop == s' = GC(ManualStop(Clr(s))) /\ ev' = E("stop", 0, "", 0, "")
Start == s' = GC(ManualStart(Clr(s))) /\ ev' = E("start", 0, "", 0, "")

\* REST requests other than manual-stop/-start (api/v1.py, api/utils.py): sending is gated on Established and writes one
\* message to the tracked connection; reading, and anything without valid credentials, changes nothing
Rest(kind) ==
   /\ s.booted /\ kind \in RESTS
   /\ s' = GC(CASE kind = "SEND_UPDATE" /\ s.st = "ESTABLISHED" -> SendOn(Clr(s), "UPDATE", 0, 0, "U")
               [] kind = "SEND_RR" /\ s.st = "ESTABLISHED" -> SendOn(Clr(s), "RR", 0, 0, "R")
               [] OTHER -> Clr(s))
   /\ ev' = E("rest", 0, kind, 0, "")
Net == \E c \in ConnIds : ConnSucceeds(c) \/ ConnRefused(c) \/ ConnLost(c) \/ TcpTimeout(c) \/ \E m \in Msgs : PeerSends(c, m)
Time == Tick \/ \E t \in Timers : TimerFires(t)
Next == Boot \/ Net \/ Time \/ Stop \/ Start \/ \E k \in RESTS : Rest(k)
Spec == Init /\ [][Next]_vars

------------------------------------------------------------------------------
\* state-space bounds (CONSTRAINTs of the configs)
Bound == Len(s.conns) <= MAXLIVE
LiveSet(r) == {c \in 1..Len(r.conns) : r.conns[c].cs \in {"connecting", "open"}}
\* the single-connection regime of C01: no second attempt while one is connecting or open
SingleConn == Cardinality(LiveSet(s)) <= 1 /\ Len(s.conns) <= MAXLIVE

\* graph dump (DESIGN.md 2.4): one line per explored transition, one per distinct state
View == Clr(s)
Id(v) == <<TLCFP(v), TLCFP(<<v, "salt">>)>>
EmitEdge == PrintT("@E " \o ToJson(<<Id(View), ev', [out |-> s'.out, rep |-> s'.rep, att |-> s'.att, cl |-> s'.cl], <<>>, Id(Clr(s'))>>))
DumpState == PrintT("@S " \o ToJson(<<Id(View), Clr(s)>>))
=============================================================================
